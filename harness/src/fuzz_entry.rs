//! Byte-decoding entry points shared by the harness binary (corpus / regression replay) and the
//! cargo-fuzz targets in /verif/fuzz. Every entry carries its semantic oracle; `Err` = violation.

use crate::engine::{self, CaseResult, Failure, RunCfg, Stats, SubCheck, Violation};
use crate::gen::ValStream;
use crate::props::{c01, c02, c03, c04, c10, c13, c17, c18};
use serde_json::Value;

pub struct Cur<'a> {
	d: &'a [u8],
	i: usize,
}
impl<'a> Cur<'a> {
	pub fn new(d: &'a [u8]) -> Self {
		Self { d, i: 0 }
	}
	pub fn u8(&mut self) -> u8 {
		let v = self.d.get(self.i).copied().unwrap_or(0);
		self.i += 1;
		v
	}
	pub fn u16(&mut self) -> u16 {
		(self.u8() as u16) << 8 | self.u8() as u16
	}
	pub fn left(&self) -> usize {
		self.d.len().saturating_sub(self.i)
	}
	/// value from a small lattice with ties, both zeros and a few magnitudes
	pub fn val(&mut self) -> f64 {
		let b = self.u8();
		match b {
			0 => -0.0,
			1 => 0.0,
			2..=40 => (b as f64 - 21.0) * 0.5,
			41..=60 => (b as f64 - 50.0) * 1e3 + 0.125,
			61..=70 => 1e-4 * (b as f64 - 60.0),
			_ => {
				let m = self.u16() as f64 / 65536.0;
				(m - 0.5) * 10f64.powi((b % 9) as i32 - 3)
			}
		}
	}
}

pub const TARGETS: [&str; 7] = ["window_ops", "smm_stream", "method_program", "window_json", "parse_strings", "renko_stream", "indicator_program"];

pub fn window_ops(data: &[u8]) -> CaseResult {
	let mut c = Cur::new(data);
	let cap = match c.u8() {
		b @ 0..=200 => (b % 20) as u32,
		b => (b as u32 - 200) * 4 + 30,
	}
	.min(254);
	let boxed = c.u8() & 1 == 1;
	let mut ops = Vec::new();
	// (every observation compares the whole window with the model: long op lists on large capacities cost
	// milliseconds per input and starve the coverage feedback; large capacities are enumerated exhaustively by C01)
	let max_ops = if cap <= 40 { 400 } else { 80 };
	while c.left() > 0 && ops.len() < max_ops {
		ops.push(match c.u8() % 16 {
			0..=8 => c01::Op::Push,
			9 | 10 => c01::Op::Observe,
			11 | 12 => c01::Op::Splits(c.u16()),
			13 => if c.left() % 2 == 0 { c01::Op::CloneSwap } else { c01::Op::CloneFrom(c.u8()) },
			14 => c01::Op::Rebuild,
			_ => c01::Op::Serde,
		});
	}
	let h = c01::HCase { cap, boxed, ops };
	let mut st = Stats::default();
	engine::guarded(|| if boxed { c01::run_history::<Box<u32>>(&h, &mut st) } else { c01::run_history::<u32>(&h, &mut st) })
}

fn stream(c: &mut Cur, max: usize) -> Vec<f64> {
	let mut xs = Vec::new();
	while c.left() > 0 && xs.len() < max {
		xs.push(c.val());
	}
	if xs.is_empty() {
		xs.push(1.0);
	}
	xs
}

pub fn smm_stream(data: &[u8]) -> CaseResult {
	let mut c = Cur::new(data);
	let n = match c.u8() {
		b @ 0..=199 => 1 + (b % 12) as u32,
		b => 13 + (b as u32 - 200) * 4,
	}
	.min(254);
	let init_sel = c.u8();
	let xs = stream(&mut c, 600);
	let init = if init_sel % 3 == 0 { Cur::new(&[init_sel / 3]).val() } else { xs[0] };
	let mut st = Stats::default();
	engine::guarded(|| c04::run(&ValStream { n, init, xs }, &mut st))
}

pub fn method_program(data: &[u8]) -> CaseResult {
	let mut c = Cur::new(data);
	let which = c.u8() as usize;
	let n = match c.u8() {
		b @ 0..=199 => 1 + (b % 16) as u32,
		b => 17 + (b as u32 - 200) * 4,
	}
	.min(254);
	let init_sel = c.u8();
	let mut xs = stream(&mut c, 400);
	let specs2 = c02::specs();
	let specs3 = c03::specs();
	let total = specs2.len() + specs3.len() + 2;
	let w = which % total;
	let mut st = Stats::default();
	if w < specs2.len() {
		let s = &specs2[w];
		if s.dom == crate::gen::Domain::Positive {
			for x in xs.iter_mut() {
				*x = x.abs().max(1e-3);
			}
		}
		let init = if init_sel % 3 == 0 && s.dom != crate::gen::Domain::Positive { Cur::new(&[init_sel / 3]).val() } else { xs[0] };
		let vs = ValStream { n: n.max(s.min_n), init, xs };
		engine::guarded(|| c02::run_spec(s, &vs, &mut st))
	} else if w < specs2.len() + specs3.len() {
		let s = &specs3[w - specs2.len()];
		let n = if s.max_n == 0 { 0 } else { n.min(s.max_n) };
		let vs = ValStream { n, init: xs[0], xs };
		engine::guarded(|| c03::run_spec(s, &vs, &mut st))
	} else if w == specs2.len() + specs3.len() {
		let vs = ValStream { n, init: xs[0], xs };
		engine::guarded(|| c03::run_vidya(&vs, &mut st))
	} else {
		let vs = ValStream { n, init: xs[0], xs };
		engine::guarded(|| c04::run(&vs, &mut st))
	}
}

pub fn window_json(data: &[u8]) -> CaseResult {
	let Ok(text) = std::str::from_utf8(data) else { return Ok(()) };
	let mut st = Stats::default();
	engine::guarded(|| c13::run_window_json(&c13::WinJson { text: text.to_string() }, &mut st))
}

pub fn parse_strings(data: &[u8]) -> CaseResult {
	let Ok(text) = std::str::from_utf8(data) else { return Ok(()) };
	let (sel, rest) = match text.char_indices().nth(2) {
		Some((i, _)) => (&text[..i], &text[i..]),
		None => ("", text),
	};
	let mut b = sel.bytes();
	let (i, k) = (b.next().unwrap_or(0), b.next().unwrap_or(0));
	let mut st = Stats::default();
	engine::guarded(|| {
		c18::check_source_text(rest)?;
		c18::check_ma_text(rest)?;
		c10::run_string(&c10::StrCase { s: rest.to_string(), indicator: i, key: k % 17 }, &mut st)
	})
}

pub fn renko_stream(data: &[u8]) -> CaseResult {
	let mut c = Cur::new(data);
	let brick = match c.u8() {
		0 => 0.01,
		1 => 0.25,
		2 => 0.5,
		3 => f64::EPSILON,
		4 => 0.999999,
		b => (b as f64) / 300.0,
	};
	let source = c.u8() % 8;
	let start = [100.0, 1.0, 0.0375, 98765.4321][c.u8() as usize % 4];
	let mut moves = Vec::new();
	while c.left() > 0 && moves.len() < 300 {
		let k = c.u8();
		let arg = c.u8();
		let vol = c.u8();
		let s = (arg % 7) as i8 - 3;
		moves.push((
			match k % 9 {
				0 | 1 => c17::Move::Inside((arg as u16) << 8 | vol as u16),
				2 => c17::Move::Upper(s),
				3 => c17::Move::Lower(s),
				4 => c17::Move::ChainUpper(s),
				5 => c17::Move::ChainLower(s),
				6 => c17::Move::JumpUp(arg, (vol as u16) << 8),
				7 => c17::Move::JumpDown(arg, (vol as u16) << 8),
				_ => c17::Move::JumpUp(arg % 3, 0),
			},
			vol,
		));
	}
	if moves.is_empty() {
		return Ok(());
	}
	let mut st = Stats::default();
	engine::guarded(|| c17::run_renko(&c17::RenkoCase { brick, source, start, moves }, &mut st))
}

/// Decode a candle stream on an exactly representable lattice (ticks of 1/4 around 100): ties, exactly
/// flat bars, zero volume, outside bars and gaps are all one byte away from each other.
pub fn lattice_candles(c: &mut Cur, max: usize) -> Vec<crate::gen::C5> {
	use crate::gen::C5;
	let tick = 0.25;
	let mut prev = 100.0f64;
	let mut out = Vec::new();
	while c.left() > 0 && out.len() < max {
		let b = c.u8();
		let vb = c.u8();
		let t = ((b >> 3) as f64) * tick;
		let floor = tick;
		let (o, h, l, cl) = match b % 8 {
			0 => (prev, prev, prev, prev),
			1 => (prev, prev + t, prev, prev + t),
			2 => {
				let n = (prev - t).max(floor);
				(prev, prev, n, n)
			}
			3 => (prev, prev + t, (prev - t).max(floor), prev),
			4 => (prev, prev + 2.0 * t, (prev - tick).max(floor), prev + t),
			5 => {
				let n = (prev - t).max(floor);
				(prev, prev + tick, (n - tick).max(floor), n)
			}
			6 => {
				let o = if vb & 1 == 0 { prev + t } else { (prev - t).max(floor) };
				(o, o, o, o)
			}
			_ => {
				let (h, l) = (prev + t, (prev - t).max(floor));
				(prev, h, l, if vb & 1 == 0 { h } else { l })
			}
		};
		let v = match vb {
			0..=15 => 0.0,
			16..=200 => (vb - 15) as f64,
			_ => (vb as f64 - 200.0) * 1e6,
		};
		out.push(C5 { o, h, l, c: cl, v });
		prev = cl;
	}
	if out.is_empty() {
		out.push(C5 { o: 100.0, h: 100.0, l: 100.0, c: 100.0, v: 1.0 });
	}
	out
}

/// which oracles the indicator target applies (`YVERIF_FUZZ_ORACLES=C10,C12`; default: C10)
fn oracle_set() -> &'static Vec<String> {
	use std::sync::OnceLock;
	static S: OnceLock<Vec<String>> = OnceLock::new();
	S.get_or_init(|| std::env::var("YVERIF_FUZZ_ORACLES").unwrap_or_else(|_| "C10".into()).split(',').map(|s| s.trim().to_string()).filter(|s| !s.is_empty()).collect())
}

/// One indicator (any of the 37), a configuration valid by construction, a lattice candle stream;
/// then the per-property oracles selected by `YVERIF_FUZZ_ORACLES`.
pub fn indicator_program(data: &[u8]) -> CaseResult {
	indicator_program_with(data, oracle_set())
}

pub fn indicator_program_with(data: &[u8], oracles: &[String]) -> CaseResult {
	use crate::cfggen::{self, CfgCase};
	use crate::gen::CandleStream;
	let mut c = Cur::new(data);
	let name = cfggen::NAMES[c.u8() as usize % cfggen::NAMES.len()];
	let opt = c.u8();
	let words: Vec<u16> = (0..10).map(|_| c.u16()).collect();
	let at = c.u16();
	let cuts = vec![c.u16(), c.u16(), c.u16()];
	let cfg = if opt & 0x0f == 0 {
		CfgCase { name: name.to_string(), cfg: Value::Null }
	} else {
		let mut ch = cfggen::Chooser::new(&words);
		// the same configuration domains as the proptest strategies of the selected oracles
		let modelled = oracles.iter().any(|o| matches!(o.as_str(), "C05" | "C06" | "C12" | "C11"));
		ch.wide = opt & 0x10 != 0 && !modelled;
		ch.price_sources = opt & 0x20 == 0 || modelled;
		ch.nonneg_ma = oracles.iter().any(|o| o == "C12") && matches!(name, "RelativeStrengthIndex" | "StochasticOscillator" | "SMIErgodicIndicator" | "Envelopes");
		CfgCase { name: name.to_string(), cfg: cfggen::build(name, &mut ch) }
	};
	let s = CandleStream { n: 0, cs: lattice_candles(&mut c, 2000) };
	let mut st = Stats::default();
	engine::guarded(|| {
		for o in oracles {
			match o.as_str() {
				"C10" => c10::run_indicator_stream(&c10::IStreamCase { cfg: cfg.clone(), s: s.clone() }, &mut st)?,
				"C05" => crate::props::c05::run(&crate::props::c05::VCase { cfg: cfg.clone(), s: s.clone() }, &mut st)?,
				"C06" => crate::props::c06::run(&crate::props::c06::SCase { cfg: cfg.clone(), s: s.clone() }, &mut st)?,
				"C09" => crate::props::c09::run_ibatch(&crate::props::c09::IBatch { cfg: cfg.clone(), s: s.clone(), cuts: cuts.clone(), clone_at: at }, &mut st)?,
				"C11" => crate::props::c11::run_shape(&crate::props::c11::ShapeCase { cfg: cfg.clone(), s: s.clone() }, &mut st)?,
				"C12" => crate::props::c12::run_indicator(&crate::props::c12::RCase { cfg: cfg.clone(), s: s.clone() }, &mut st)?,
				"C13" => c13::run_isnap(&c13::ISnapCase { cfg: cfg.clone(), s: s.clone(), at }, &mut st)?,
				_ => {}
			}
		}
		Ok(())
	})
}

pub fn run_target(target: &str, data: &[u8]) -> CaseResult {
	match target {
		"window_ops" => window_ops(data),
		"smm_stream" => smm_stream(data),
		"method_program" => method_program(data),
		"window_json" => window_json(data),
		"parse_strings" => parse_strings(data),
		"renko_stream" => renko_stream(data),
		"indicator_program" => indicator_program(data),
		t if t.starts_with("indicator_program@") => {
			let o: Vec<String> = t["indicator_program@".len()..].split(',').map(|x| x.to_string()).collect();
			indicator_program_with(data, &o)
		}
		_ => Err(Failure::new("harness", format!("unknown fuzz target {target}"))),
	}
}

/// Entry for the cargo-fuzz targets: known findings are tolerated (so that a campaign does not
/// rediscover one crash forever), anything else aborts with the message.
pub fn fuzz_one(target: &str, data: &[u8]) {
	use std::sync::OnceLock;
	static KNOWN: OnceLock<Vec<engine::Known>> = OnceLock::new();
	static HOOK: OnceLock<()> = OnceLock::new();
	HOOK.get_or_init(engine::install_panic_hook);
	let known = KNOWN.get_or_init(|| {
		let mut v = Vec::new();
		for p in ["C01", "C04", "C05", "C06", "C09", "C10", "C11", "C12", "C13", "C17", "C18", "C19"] {
			v.extend(engine::load_known(p));
		}
		v
	});
	if let Err(f) = run_target(target, data) {
		if known.iter().any(|k| engine::sig_matches(&k.sig, &f.sig)) {
			return;
		}
		eprintln!("ORACLE FAILURE [{}] {}", f.sig, f.msg);
		std::process::abort();
	}
}

/// replay of the committed corpus and regression inputs of one target
pub struct CorpusReplay {
	pub property: &'static str,
	pub target: &'static str,
}

fn files_of(target: &str) -> Vec<std::path::PathBuf> {
	let mut v = Vec::new();
	let target = target.split('@').next().unwrap_or(target);
	for dir in [format!("{}/corpus/{}", engine::VERIF_DIR, target), format!("{}/regress/fuzz/{}", engine::VERIF_DIR, target)] {
		if let Ok(rd) = std::fs::read_dir(&dir) {
			v.extend(rd.filter_map(|e| e.ok().map(|e| e.path())).filter(|p| p.is_file()));
		}
	}
	v.sort();
	v
}

impl SubCheck for CorpusReplay {
	fn name(&self) -> String {
		format!("corpus_{}", self.target.split('@').next().unwrap_or(self.target))
	}
	fn run(&self, cfg: &RunCfg, stats: &mut Stats) -> Option<Violation> {
		for f in files_of(self.target) {
			let Ok(data) = std::fs::read(&f) else { continue };
			stats.evals += 1;
			if let Err(fl) = run_target(self.target, &data) {
				if cfg.is_known(&fl.sig) {
					stats.excluded_known += 1;
					continue;
				}
				let rel = f.strip_prefix(engine::VERIF_DIR).unwrap_or(&f).to_string_lossy().to_string();
				return Some(Violation { check: self.name(), failure: fl, case: serde_json::json!({ "file": rel }) });
			}
			stats.nontrivial(engine::fnv(&data));
			stats.sample(self.target, || serde_json::json!({"target": self.target, "file": f.file_name().map(|x| x.to_string_lossy().to_string()), "bytes": data.len()}));
		}
		None
	}
	fn replay(&self, case: &Value, stats: &mut Stats) -> CaseResult {
		let rel = case["file"].as_str().unwrap_or("");
		let path = if std::path::Path::new(rel).is_file() { rel.to_string() } else { format!("{}/{}", engine::VERIF_DIR, rel.trim_start_matches('/')) };
		let data = std::fs::read(&path).map_err(|e| Failure::new("infrastructure", format!("{path}: {e}")))?;
		stats.evals += 1;
		run_target(self.target, &data)
	}
}

pub fn corpus_checks(property: &'static str) -> Vec<Box<dyn SubCheck>> {
	let targets: &[&'static str] = match property {
		"C19" => &["window_ops", "smm_stream", "method_program", "window_json", "indicator_program@C10"],
		"C01" => &["window_ops"],
		"C04" => &["smm_stream"],
		"C13" => &["window_json", "indicator_program@C13"],
		"C05" => &["indicator_program@C05"],
		"C06" => &["indicator_program@C06"],
		"C09" => &["indicator_program@C09"],
		"C10" => &["indicator_program@C10"],
		"C11" => &["indicator_program@C11"],
		"C12" => &["indicator_program@C12"],
		"C17" => &["renko_stream"],
		"C18" => &["parse_strings"],
		_ => &[],
	};
	targets.iter().map(|t| Box::new(CorpusReplay { property, target: t }) as Box<dyn SubCheck>).collect()
}
