//! Reference building blocks for indicator values (C05): value±allowance arithmetic and naive
//! reference averages that consume and produce `Ap`. Nothing here calls yata::methods or
//! yata::indicators.

use crate::approx::{allow, eps, Mag};
use serde_json::Value;
use std::collections::VecDeque;

#[derive(Clone, Copy, Debug, PartialEq)]
pub struct Ap {
	pub v: f64,
	pub e: f64,
}

#[derive(Clone, Copy, Debug, PartialEq, Eq)]
pub enum Tri {
	T,
	F,
	A,
}

impl Ap {
	pub fn exact(v: f64) -> Ap {
		Ap { v, e: 0.0 }
	}
	pub fn new(v: f64, e: f64) -> Ap {
		Ap { v, e }
	}
	fn r(v: f64, e: f64) -> Ap {
		Ap { v, e: e + 2.0 * eps() * v.abs() }
	}
	pub fn add(self, o: Ap) -> Ap {
		Ap::r(self.v + o.v, self.e + o.e)
	}
	pub fn sub(self, o: Ap) -> Ap {
		// the operands' magnitudes matter for the rounding of a cancelling difference only through their own errors
		Ap::r(self.v - o.v, self.e + o.e)
	}
	pub fn scale(self, k: f64) -> Ap {
		Ap::r(self.v * k, self.e * k.abs())
	}
	pub fn mul(self, o: Ap) -> Ap {
		Ap::r(self.v * o.v, self.e * o.v.abs() + o.e * self.v.abs() + self.e * o.e)
	}
	/// None = ill-conditioned (|b| within twice its error of zero)
	pub fn div(self, o: Ap) -> Option<Ap> {
		if !(o.v.abs() > 2.0 * o.e) || o.v == 0.0 {
			return None;
		}
		let q = self.v / o.v;
		Some(Ap::r(q, (self.e + q.abs() * o.e) / (o.v.abs() - o.e)))
	}
	pub fn abs(self) -> Ap {
		Ap { v: self.v.abs(), e: self.e }
	}
	pub fn neg(self) -> Ap {
		Ap { v: -self.v, e: self.e }
	}
	pub fn max(self, o: Ap) -> Ap {
		// clearly separated operands: the larger one, with its own error
		if self.v - self.e >= o.v + o.e {
			return self;
		}
		if o.v - o.e >= self.v + self.e {
			return o;
		}
		Ap { v: self.v.max(o.v), e: self.e.max(o.e) }
	}
	pub fn min(self, o: Ap) -> Ap {
		if self.v + self.e <= o.v - o.e {
			return self;
		}
		if o.v + o.e <= self.v - self.e {
			return o;
		}
		Ap { v: self.v.min(o.v), e: self.e.max(o.e) }
	}
	pub fn sqrt(self) -> Ap {
		let v = self.v.max(0.0).sqrt();
		let hi = (self.v + self.e).max(0.0).sqrt();
		let lo = (self.v - self.e).max(0.0).sqrt();
		Ap::r(v, (hi - v).max(v - lo))
	}
	pub fn widen(self, extra: f64) -> Ap {
		Ap { v: self.v, e: self.e + extra }
	}
	/// self > o ?
	pub fn gt(self, o: Ap) -> Tri {
		let d = self.v - o.v;
		let e = self.e + o.e;
		if d > e {
			Tri::T
		} else if d < -e || (d <= 0.0 && e == 0.0) {
			Tri::F
		} else {
			Tri::A
		}
	}
	pub fn is_zero(self) -> Tri {
		if self.v == 0.0 && self.e == 0.0 {
			Tri::T
		} else if self.v.abs() > self.e {
			Tri::F
		} else {
			Tri::A
		}
	}
	pub fn contains(self, x: f64) -> bool {
		if x.is_nan() || self.v.is_nan() {
			return x.is_nan() && self.v.is_nan();
		}
		(x - self.v).abs() <= self.e || x == self.v
	}
}

// --------------------------------------------------------------------------------------
// reference averages

pub trait RefAvg {
	fn next(&mut self, x: Ap) -> Ap;
}

/// fixed-weight window average (weights oldest -> newest, normalised)
pub struct WinAvg {
	w: Vec<f64>,
	hist: VecDeque<Ap>,
	t: usize,
	mag: Mag,
	gain: f64,
}

impl WinAvg {
	pub fn new(weights: Vec<f64>, init: Ap, gain: f64) -> Self {
		let n = weights.len();
		Self { w: weights, hist: std::iter::repeat(init).take(n).collect(), t: 0, mag: Mag::new(init.v), gain }
	}
	pub fn sma(n: usize, init: Ap) -> Self {
		Self::new(vec![1.0 / n as f64; n], init, 1.0)
	}
	pub fn wma(n: usize, init: Ap) -> Self {
		let s = (n * (n + 1) / 2) as f64;
		Self::new((0..n).map(|i| (i + 1) as f64 / s).collect(), init, 1.0)
	}
	pub fn swma(n: usize, init: Ap) -> Self {
		let s: f64 = (0..n).map(|i| (i + 1).min(n - i) as f64).sum();
		Self::new((0..n).map(|i| (i + 1).min(n - i) as f64 / s).collect(), init, 1.0)
	}
	pub fn linreg(n: usize, init: Ap) -> Self {
		let nf = n as f64;
		// weight of the value with age k
		let w: Vec<f64> = (0..n).map(|i| {
			let k = (n - 1 - i) as f64;
			2.0 * (2.0 * nf - 1.0 - 3.0 * k) / (nf * (nf + 1.0))
		}).collect();
		Self::new(w, init, 4.0)
	}
}

impl RefAvg for WinAvg {
	fn next(&mut self, x: Ap) -> Ap {
		self.hist.pop_front();
		self.hist.push_back(x);
		let m = self.mag.add(x.v.abs() + x.e);
		let mut v = 0.0;
		let mut e = 0.0;
		for (w, a) in self.w.iter().zip(self.hist.iter()) {
			v += w * a.v;
			e += w.abs() * a.e;
		}
		let own = allow(self.w.len(), self.t, m, self.gain);
		self.t += 1;
		Ap { v, e: e + own }
	}
}

pub struct EmaRef {
	a: f64,
	v: f64,
	ep: f64,
	t: usize,
	n: usize,
	mag: Mag,
}
impl EmaRef {
	pub fn new(a: f64, n: usize, init: Ap) -> Self {
		Self { a, v: init.v, ep: init.e, t: 0, n, mag: Mag::new(init.v) }
	}
}
impl RefAvg for EmaRef {
	fn next(&mut self, x: Ap) -> Ap {
		let m = self.mag.add(x.v.abs() + x.e);
		self.v += self.a * (x.v - self.v);
		self.ep = (1.0 - self.a) * self.ep + self.a * x.e;
		let own = allow(self.n, self.t, m, 1.0);
		self.t += 1;
		Ap { v: self.v, e: self.ep + own }
	}
}

pub struct Chain(pub Vec<Box<dyn RefAvg>>);
impl RefAvg for Chain {
	fn next(&mut self, x: Ap) -> Ap {
		let mut y = x;
		for s in self.0.iter_mut() {
			y = s.next(y);
		}
		y
	}
}

/// DEMA (k = 2) / TEMA (k = 3)
pub struct XEma {
	e1: EmaRef,
	e2: EmaRef,
	e3: Option<EmaRef>,
}
impl RefAvg for XEma {
	fn next(&mut self, x: Ap) -> Ap {
		let a1 = self.e1.next(x);
		let a2 = self.e2.next(a1);
		match self.e3.as_mut() {
			None => a1.scale(2.0).sub(a2),
			Some(e3) => {
				let a3 = e3.next(a2);
				a1.sub(a2).scale(3.0).add(a3)
			}
		}
	}
}

pub struct HmaRef {
	w1: WinAvg,
	w2: WinAvg,
	w3: WinAvg,
}
impl RefAvg for HmaRef {
	fn next(&mut self, x: Ap) -> Ap {
		let a = self.w1.next(x);
		let b = self.w2.next(x);
		self.w3.next(a.scale(2.0).sub(b))
	}
}

pub struct SmmRef {
	hist: VecDeque<Ap>,
}
impl RefAvg for SmmRef {
	fn next(&mut self, x: Ap) -> Ap {
		self.hist.pop_front();
		self.hist.push_back(x);
		let mut vs: Vec<f64> = self.hist.iter().map(|a| a.v).collect();
		vs.sort_by(|a, b| a.partial_cmp(b).unwrap_or(std::cmp::Ordering::Equal));
		let n = vs.len();
		let e = self.hist.iter().fold(0.0f64, |m, a| m.max(a.e));
		Ap { v: (vs[n / 2] + vs[(n - 1) / 2]) * 0.5, e: e + 2.0 * eps() * vs[n / 2].abs() }
	}
}

/// Vidya on a series known only up to an error: value by the recurrence on the centres, error by
/// first-order propagation; an undecidable smoothing factor widens the error to the hull
pub struct VidyaRef {
	n: usize,
	f: f64,
	last_in: Ap,
	out: Ap,
	ch: VecDeque<Ap>,
	t: usize,
	mag: Mag,
}
impl VidyaRef {
	pub fn new(n: usize, init: Ap) -> Self {
		Self { n, f: 2.0 / (n as f64 + 1.0), last_in: init, out: init, ch: std::iter::repeat(Ap::exact(0.0)).take(n).collect(), t: 0, mag: Mag::new(init.v) }
	}
}
impl RefAvg for VidyaRef {
	fn next(&mut self, x: Ap) -> Ap {
		let m = self.mag.add(x.v.abs() + x.e);
		let d = Ap { v: x.v - self.last_in.v, e: x.e + self.last_in.e };
		self.last_in = x;
		self.ch.pop_front();
		self.ch.push_back(d);
		let (mut up, mut dn, mut es) = (0.0, 0.0, 0.0);
		let mut all_exact_zero = true;
		for c in &self.ch {
			if c.v > 0.0 {
				up += c.v;
			} else {
				dn -= c.v;
			}
			// a change whose sign is undecided may belong to either sum
			es += c.e + if c.v.abs() <= c.e { 2.0 * c.v.abs() } else { 0.0 };
			all_exact_zero &= c.v == 0.0 && c.e == 0.0;
		}
		let own = allow(self.n, self.t, m, 1.0);
		self.t += 1;
		let a_sum = es + allow(self.n, self.t, 2.0 * m, self.n as f64);
		let prev = self.out;
		self.out = if all_exact_zero {
			x
		} else {
			let hull = Ap { v: x.v, e: (x.v - prev.v).abs() + x.e + prev.e };
			// inputs that are themselves uncertain (an exempt quantity upstream) make the momentum ratio
			// undecidable to first order: only the hull is claimed then
			let noisy = self.ch.iter().any(|c| c.e > 1e-9 * (m + 1e-300));
			match Ap::new((up - dn).abs(), a_sum).div(Ap::new(up + dn, a_sum)) {
				Some(cmo) if up + dn > 4.0 * a_sum && !noisy => {
					let k = self.f * cmo.v.min(1.0);
					let v = x.v * k + (1.0 - k) * prev.v;
					let e = (1.0 - k) * prev.e + k * x.e + (x.v - prev.v).abs() * self.f * cmo.e;
					if e > hull.e { hull } else { Ap { v, e } }
				}
				_ => hull,
			}
		};
		self.out.widen(own)
	}
}

fn alpha(n: usize) -> f64 {
	2.0 / (n as f64 + 1.0)
}

/// reference average for a configuration entry such as {"ema": 14}
pub fn ma_ref(cfg: &Value, init: Ap) -> Box<dyn RefAvg> {
	let (kind, len) = cfg.as_object().and_then(|m| m.iter().next()).map(|(k, v)| (k.as_str(), v.as_u64().unwrap_or(1) as usize)).unwrap_or(("sma", 1));
	ma_ref_kind(kind, len, init)
}

pub fn ma_ref_kind(kind: &str, n: usize, init: Ap) -> Box<dyn RefAvg> {
	match kind {
		"sma" => Box::new(WinAvg::sma(n, init)),
		"wma" => Box::new(WinAvg::wma(n, init)),
		"swma" => Box::new(WinAvg::swma(n, init)),
		"lin_reg" => Box::new(WinAvg::linreg(n, init)),
		"trima" => Box::new(Chain(vec![Box::new(WinAvg::sma(n, init)), Box::new(WinAvg::sma(n, init))])),
		"hma" => Box::new(HmaRef { w1: WinAvg::wma(n / 2, init), w2: WinAvg::wma(n, init), w3: WinAvg::wma((n as f64).sqrt() as usize, init) }),
		"ema" => Box::new(EmaRef::new(alpha(n), n, init)),
		"rma" | "wsma" => Box::new(EmaRef::new(1.0 / n as f64, n, init)),
		"dma" => Box::new(Chain(vec![Box::new(EmaRef::new(alpha(n), n, init)), Box::new(EmaRef::new(alpha(n), n, init))])),
		"tma" => Box::new(Chain(vec![Box::new(EmaRef::new(alpha(n), n, init)), Box::new(EmaRef::new(alpha(n), n, init)), Box::new(EmaRef::new(alpha(n), n, init))])),
		"dema" => Box::new(XEma { e1: EmaRef::new(alpha(n), n, init), e2: EmaRef::new(alpha(n), n, init), e3: None }),
		"tema" => Box::new(XEma { e1: EmaRef::new(alpha(n), n, init), e2: EmaRef::new(alpha(n), n, init), e3: Some(EmaRef::new(alpha(n), n, init)) }),
		"smm" => Box::new(SmmRef { hist: std::iter::repeat(init).take(n).collect() }),
		"vidya" => Box::new(VidyaRef::new(n, init)),
		_ => Box::new(WinAvg::sma(n.max(1), init)),
	}
}

pub fn ma_len(cfg: &Value) -> usize {
	cfg.as_object().and_then(|m| m.values().next()).and_then(|v| v.as_u64()).unwrap_or(1) as usize
}

// --------------------------------------------------------------------------------------
// small exact helpers on histories

/// ring of the last n values with a prehistory value
pub struct Hist<T: Copy> {
	pub buf: VecDeque<T>,
}
impl<T: Copy> Hist<T> {
	pub fn new(n: usize, init: T) -> Self {
		Self { buf: std::iter::repeat(init).take(n).collect() }
	}
	/// push, returning the value that leaves (pushed n steps before)
	pub fn push(&mut self, x: T) -> T {
		let old = self.buf.pop_front().unwrap();
		self.buf.push_back(x);
		old
	}
	pub fn iter(&self) -> impl Iterator<Item = &T> {
		self.buf.iter()
	}
}

pub fn hi(h: &Hist<f64>) -> f64 {
	h.iter().fold(f64::NEG_INFINITY, |m, x| m.max(*x))
}
pub fn lo(h: &Hist<f64>) -> f64 {
	h.iter().fold(f64::INFINITY, |m, x| m.min(*x))
}
