//! Generated (method kind, valid parameters, input stream) cases for the generic properties.

use crate::dynm::{self, In, InKind, MParams, ParamKind};
use crate::gen::{self, Domain};
use proptest::prelude::*;
use serde::{Deserialize, Serialize};

#[derive(Serialize, Deserialize, Clone, Debug)]
pub struct MStream {
	pub kind: String,
	pub params: MParams,
	pub xs: Vec<In>,
}

impl MStream {
	/// nominal window length of the case (for stream-length relative rules)
	pub fn span(&self) -> usize {
		match &self.params {
			MParams::Len(n) => *n as usize,
			MParams::Pair(a, b) => (*a + *b + 1) as usize,
			MParams::Weights(w) => w.len(),
			MParams::Collapse(n) => *n,
			_ => 1,
		}
	}
}

fn stratified(min: u32, max: u32) -> SBoxedStrategy<u64> {
	let (min, max) = (min as u64, max as u64);
	if max <= min + 8 {
		return (min..=max).sboxed();
	}
	prop_oneof![
		4 => min..=(min + 4),
		3 => (min + 5)..=(min + 24).min(max),
		2 => min..=max,
		1 => prop_oneof![Just(max), Just(max - 1), Just(127u64.clamp(min, max)), Just(128u64.clamp(min, max))],
	]
	.sboxed()
}

pub fn params_strategy(kind: &dynm::MethodKind) -> SBoxedStrategy<MParams> {
	match kind.params {
		ParamKind::Len(min, max) => stratified(min, max).prop_map(MParams::Len).sboxed(),
		ParamKind::TsiPair => (stratified(1, 254), stratified(1, 254)).prop_map(|(a, b)| MParams::Pair(a, b)).sboxed(),
		ParamKind::RevPair => stratified(1, 126).prop_flat_map(|l| (Just(l), stratified(1, (253 - l) as u32))).prop_map(|(l, r)| MParams::Pair(l, r)).sboxed(),
		ParamKind::Weights => (proptest::collection::vec((1u16..=u16::MAX, any::<u8>()), 1..40), any::<bool>())
			.prop_map(|(raw, signed)| {
				let mut w: Vec<f64> = raw.iter().map(|&(m, s)| m as f64 / 6553.6 * if signed && s < 40 { -1.0 } else { 1.0 }).collect();
				let sa: f64 = w.iter().map(|x| x.abs()).sum();
				let mut i = 0;
				while w.iter().sum::<f64>().abs() < sa / 16.0 && i < w.len() {
					w[i] = w[i].abs();
					i += 1;
				}
				MParams::Weights(w.into_iter().map(gen::vt).collect())
			})
			.sboxed(),
		ParamKind::Unit => Just(MParams::Unit).sboxed(),
		ParamKind::Renko => (prop_oneof![Just(0.01f64), Just(0.25), 1e-4f64..0.5], 0u8..6).prop_map(|(b, s)| MParams::Renko(b, s)).sboxed(),
		ParamKind::Collapse => (1usize..=12).prop_map(MParams::Collapse).sboxed(),
	}
}

fn nominal(p: &MParams) -> usize {
	match p {
		MParams::Len(n) => (*n as usize).max(1),
		MParams::Pair(a, b) => (*a + *b + 1) as usize,
		MParams::Weights(w) => w.len(),
		MParams::Collapse(n) => *n,
		_ => 6,
	}
}

pub fn inputs_strategy(kind_name: &'static str, input: InKind, n: usize, max_len: usize) -> SBoxedStrategy<Vec<In>> {
	match input {
		InKind::V => {
			let dom = if kind_name == "RateOfChange" { Domain::Positive } else { Domain::Any };
			gen::spec_strategy(8).prop_map(move |s| gen::build_stream(&s, n, max_len, dom).into_iter().map(In::V).collect()).sboxed()
		}
		InKind::P => {
			let second_any = kind_name.starts_with("Cross");
			(gen::spec_strategy(8), gen::spec_strategy(6))
				.prop_map(move |(a, b)| {
					let xs = gen::build_stream(&a, n, max_len, Domain::Any);
					let ys = gen::build_stream(&b, n, max_len, if second_any { Domain::Any } else { Domain::NonNegative });
					xs.iter().enumerate().map(|(i, x)| In::P(*x, if second_any { ys[i % ys.len()] } else { ys[i % ys.len()].min(1e6) })).collect()
				})
				.sboxed()
		}
		InKind::C => gen::candle_spec_strategy().prop_map(move |s| gen::build_candles(&s, n, max_len).into_iter().map(In::C).collect()).sboxed(),
	}
}

/// (kind, valid params, stream); the first element of the stream is the construction value
pub fn method_case(kind_name: &'static str, max_len: usize) -> SBoxedStrategy<MStream> {
	let kind = dynm::kind(kind_name).expect("kind");
	let input = kind.input;
	params_strategy(&kind)
		.prop_flat_map(move |p| {
			let n = nominal(&p);
			(Just(p), inputs_strategy(kind_name, input, n, max_len))
		})
		.prop_map(move |(params, xs)| MStream { kind: kind_name.to_string(), params, xs })
		.sboxed()
}

pub fn all_kind_names() -> Vec<&'static str> {
	dynm::kinds().into_iter().map(|k| k.name).collect()
}
