//! Generated API programs and their transcripts (a hash of every returned bit), used to compare
//! different builds of the same source tree (C19, C20).

use crate::cfggen::{self, CfgCase, GenOpts};
use crate::dynm::{self, Out};
use crate::engine;
use crate::gen::{self, CandleStream};
use crate::mgen::{self, MStream};
use crate::props::c01::{self, HCase};
use crate::props::c11::result_bits;
use proptest::prelude::*;
use proptest::strategy::ValueTree;
use proptest::test_runner::{Config, RngAlgorithm, RngSeed, TestRng, TestRunner};
use serde::{Deserialize, Serialize};

#[derive(Serialize, Deserialize, Clone, Debug)]
pub enum Program {
	Method { m: MStream, peek_every: u8, snap_at: u16, clone_at: u16 },
	Window(HCase),
	Indicator { cfg: CfgCase, s: CandleStream, snap_at: u16 },
}

#[derive(Clone, Debug, PartialEq, Eq)]
pub enum Trace {
	Hash(u64, u64),
	Panic(String),
	Rejected,
}

impl Trace {
	pub fn line(&self) -> String {
		match self {
			Trace::Hash(a, b) => format!("{a:016x}{b:016x}"),
			Trace::Panic(s) => format!("PANIC {s}"),
			Trace::Rejected => "REJECTED".to_string(),
		}
	}
	pub fn parse(s: &str) -> Trace {
		if let Some(p) = s.strip_prefix("PANIC ") {
			Trace::Panic(p.to_string())
		} else if s == "REJECTED" {
			Trace::Rejected
		} else if s.len() == 32 {
			Trace::Hash(u64::from_str_radix(&s[..16], 16).unwrap_or(0), u64::from_str_radix(&s[16..], 16).unwrap_or(0))
		} else {
			Trace::Panic(format!("unparsable line {s:?}"))
		}
	}
}

struct H(u64, u64);
impl H {
	fn new() -> Self {
		H(0x1234_5678_9abc_def0, 0x0fed_cba9_8765_4321)
	}
	fn add(&mut self, v: u64) {
		self.0 = engine::mix(self.0, v);
		self.1 = engine::mix(self.1 ^ 0x9e37_79b9_7f4a_7c15, v.rotate_left(31));
	}
	fn add_out(&mut self, o: &Out) {
		for b in o.bits() {
			self.add(b);
		}
		self.add(0xfeed);
	}
	fn add_str(&mut self, s: &str) {
		self.add(engine::fnv(s.as_bytes()));
	}
}

impl Program {
	pub fn class(&self) -> String {
		match self {
			Program::Method { m, .. } => format!("method:{}", m.kind),
			Program::Window(_) => "window".to_string(),
			Program::Indicator { cfg, .. } => format!("indicator:{}", cfg.name),
		}
	}

	/// largest length-like parameter (O1 of C20 only compares programs that fit the default type)
	pub fn nontrivial(&self) -> bool {
		match self {
			Program::Method { m, .. } => m.span() >= 2 && m.xs.len() > m.span() + 1,
			Program::Window(h) => h.cap >= 2 && h.ops.len() as u32 > h.cap,
			Program::Indicator { s, .. } => s.cs.len() > 10,
		}
	}

	fn run(&self) -> Trace {
		let mut h = H::new();
		match self {
			Program::Method { m, peek_every, snap_at, clone_at } => {
				let Some(kind) = dynm::kind(&m.kind) else { return Trace::Rejected };
				let Ok(mut inst) = (kind.make)(&m.params, &m.xs[0]) else { return Trace::Rejected };
				let n = m.xs.len();
				let snap = (*snap_at as usize * (n + 1)) >> 16;
				let cl = (*clone_at as usize * (n + 1)) >> 16;
				for (t, x) in m.xs.iter().enumerate() {
					if t == snap {
						if let Ok(j) = inst.to_json() {
							h.add_str(&j);
							// non-finite floats are not representable: keep the original in that case
							if !j.contains("null") || m.kind == "CollapseTimeframe" {
								match inst.restore(&j) {
									Ok(r) => inst = r,
									Err(e) => h.add_str(&format!("restore-error:{e}")),
								}
							}
						}
					}
					if t == cl {
						let c = inst.clone_box();
						inst = c;
					}
					let o = inst.next(x);
					h.add_out(&o);
					if *peek_every > 0 && t % (*peek_every as usize) == 0 {
						if let Some(p) = inst.peek() {
							h.add_out(&p);
						}
					}
				}
			}
			Program::Window(c) => {
				let (a, b) = if c.boxed { c01::trace_history::<Box<u32>>(c) } else { c01::trace_history::<u32>(c) };
				h.add(a);
				h.add(b);
			}
			Program::Indicator { cfg, s, snap_at } => {
				let Ok(c) = cfggen::instantiate(cfg) else { return Trace::Rejected };
				let Ok(mut inst) = c.init(&s.cs[0].candle()) else { return Trace::Rejected };
				let n = s.cs.len();
				let snap = (*snap_at as usize * (n + 1)) >> 16;
				for (t, k) in s.cs.iter().enumerate() {
					if t == snap && cfg.name != "Example" {
						if let Ok(j) = inst.to_json() {
							h.add_str(&j);
							if !j.contains("null") {
								match inst.restore(&j) {
									Ok(r) => inst = r,
									Err(e) => h.add_str(&format!("restore-error:{e}")),
								}
							}
						}
					}
					for b in result_bits(&inst.next(&k.candle())) {
						h.add(b);
					}
				}
			}
		}
		Trace::Hash(h.0, h.1)
	}

	pub fn trace(&self) -> Trace {
		match engine::catch(|| self.run()) {
			Ok(t) => t,
			Err(p) => Trace::Panic(p.sig()),
		}
	}
}

/// deterministic program generator: a pure function of (seed, chunk)
pub struct ProgramGen {
	runner: TestRunner,
	methods: Vec<SBoxedStrategy<Program>>,
	windows: SBoxedStrategy<Program>,
	indicators: Vec<SBoxedStrategy<Program>>,
	i: usize,
}

impl ProgramGen {
	pub fn new(seed: u64, chunk: u64, max_len: usize) -> Self {
		let s = engine::mix(seed, 0xc19 ^ chunk << 20);
		let mut bytes = [0u8; 32];
		for i in 0..4 {
			bytes[i * 8..(i + 1) * 8].copy_from_slice(&engine::mix(s, i as u64).to_le_bytes());
		}
		let config = Config { failure_persistence: None, rng_seed: RngSeed::Fixed(s), ..Config::default() };
		let runner = TestRunner::new_with_rng(config, TestRng::from_seed(RngAlgorithm::ChaCha, &bytes));
		let methods = mgen::all_kind_names()
			.into_iter()
			.map(|name| (mgen::method_case(name, max_len), 0u8..4, any::<u16>(), any::<u16>()).prop_map(|(m, peek_every, snap_at, clone_at)| Program::Method { m, peek_every, snap_at, clone_at }).sboxed())
			.collect();
		let windows = c01::history_strategy_pub().prop_map(Program::Window).sboxed();
		let indicators = cfggen::NAMES
			.iter()
			.map(|name| (cfggen::config_strategy(name, GenOpts { wide: true, price_sources: true, nonneg_ma: false }), gen::candle_stream(1, max_len), any::<u16>()).prop_map(|(cfg, s, snap_at)| Program::Indicator { cfg, s, snap_at }).sboxed())
			.collect();
		Self { runner, methods, windows, indicators, i: 0 }
	}

	pub fn next_program(&mut self) -> Program {
		let i = self.i;
		self.i += 1;
		let strat = match i % 8 {
			0 | 1 | 2 | 3 => &self.methods[(i / 8 * 4 + i % 8) % self.methods.len()],
			4 => &self.windows,
			_ => &self.indicators[(i / 8 * 3 + i % 8 - 5) % self.indicators.len()],
		};
		loop {
			if let Ok(t) = strat.new_tree(&mut self.runner) {
				return t.current();
			}
		}
	}
}

/// print the transcript of one chunk: "<index> <class> <line>"
pub fn print_transcript(seed: u64, chunk: u64, count: usize, max_len: usize) {
	let mut g = ProgramGen::new(seed, chunk, max_len);
	let out = std::io::stdout();
	use std::io::Write;
	let mut lock = out.lock();
	for i in 0..count {
		let p = g.next_program();
		let _ = writeln!(lock, "{} {} {}", i, p.class(), p.trace().line());
	}
}
