//! C16 — Action is a consistent signed-strength algebra. Exhaustive enumeration.

use crate::engine::{enumerate, CaseResult, PropertyDef, Stats, SubCheck, Tier};
use crate::{ensure, fail};
use serde::{Deserialize, Serialize};
use std::cmp::Ordering;
use yata::core::Action;

#[derive(Serialize, Deserialize, Clone, Copy, Debug, PartialEq, Eq)]
pub enum A {
	N,
	B(u8),
	S(u8),
}
impl A {
	pub fn act(self) -> Action {
		match self {
			A::N => Action::None,
			A::B(k) => Action::Buy(k),
			A::S(k) => Action::Sell(k),
		}
	}
	/// signed strength; None counts as 0
	pub fn s(self) -> i32 {
		match self {
			A::N => 0,
			A::B(k) => k as i32,
			A::S(k) => -(k as i32),
		}
	}
	pub fn all() -> Vec<A> {
		let mut v = vec![A::N];
		for k in 0..=255u8 {
			v.push(A::B(k));
			v.push(A::S(k));
		}
		v
	}
}

fn same(a: Action, b: Action) -> bool {
	// structural identity
	match (a, b) {
		(Action::None, Action::None) => true,
		(Action::Buy(x), Action::Buy(y)) | (Action::Sell(x), Action::Sell(y)) => x == y,
		_ => false,
	}
}

fn ratio64(a: Action) -> Option<f64> {
	a.ratio().map(|r| r as f64)
}

fn unary(a: &A, st: &mut Stats) -> CaseResult {
	let x = a.act();
	let exp_ratio = match a {
		A::N => None,
		_ => Some(a.s() as f64 / 255.0),
	};
	let r = ratio64(x);
	match (r, exp_ratio) {
		(None, None) => {}
		(Some(r), Some(e)) => {
			ensure!((-1.0..=1.0).contains(&r), "C16:ratio-range", "ratio({:?}) = {}", x, r);
			ensure!((r - e).abs() <= 1e-6, "C16:ratio-value", "ratio({:?}) = {} expected {}", x, r, e);
		}
		_ => fail!("C16:ratio-none", "ratio({:?}) = {:?} expected {:?}", x, r, exp_ratio),
	}
	// from(ratio(a)) == a
	let back: Action = x.ratio().into();
	ensure!(back == x, "C16:from-ratio", "from(ratio({:?})) = {:?}", x, back);
	if let Some(r) = x.ratio() {
		let back: Action = r.into();
		ensure!(back == x, "C16:from-ratio", "from(ratio({:?})) = {:?}", x, back);
	}
	// analog / sign agree with the sign of the ratio
	let sg = a.s().signum() as i8;
	ensure!(x.analog() == sg, "C16:analog", "analog({:?}) = {} expected {}", x, x.analog(), sg);
	let es = if *a == A::N { None } else { Some(sg) };
	ensure!(x.sign() == es, "C16:sign", "sign({:?}) = {:?} expected {:?}", x, x.sign(), es);
	ensure!(x.is_none() == (*a == A::N) && x.is_some() != x.is_none(), "C16:is_none", "is_none({:?})", x);
	// negation
	ensure!(same(-(-x), x), "C16:neg-involution", "-(-{:?}) = {:?}", x, -(-x));
	match (ratio64(-x), ratio64(x)) {
		(None, None) => {}
		(Some(n), Some(p)) => ensure!(n == -p, "C16:neg-ratio", "ratio(-{:?}) = {} but ratio = {}", x, n, p),
		(n, p) => fail!("C16:neg-ratio", "ratio(-{:?}) = {:?} but ratio = {:?}", x, n, p),
	}
	// equality reflexive
	ensure!(x == x, "C16:eq-reflexive", "{:?} != itself", x);
	ensure!(x.cmp(&x) == Ordering::Equal, "C16:cmp-reflexive", "cmp({:?}, itself) != Equal", x);
	st.nontrivial_bulk(1);
	st.sample("unary", || serde_json::to_value(a).unwrap());
	Ok(())
}

fn zero_pair(a: A, b: A) -> bool {
	matches!((a, b), (A::B(0), A::S(0)) | (A::S(0), A::B(0)))
}

fn pairs(a: &A, st: &mut Stats) -> CaseResult {
	let x = a.act();
	for b in A::all() {
		let y = b.act();
		// subtraction
		let d = x - y;
		if *a == A::N && b == A::N {
			ensure!(d.is_none(), "C16:sub-none", "None - None = {:?}", d);
		} else {
			let e = (a.s() - b.s()).clamp(-255, 255) as f64 / 255.0;
			let cls = if (a.s() > 0 && b.s() < 0) || (a.s() < 0 && b.s() > 0) { "mixed" } else { "same" };
			match ratio64(d) {
				Some(r) => ensure!((r - e).abs() <= 1e-6, &format!("C16:sub-ratio-{cls}"), "{:?} - {:?} = {:?} (ratio {}) expected ratio {}", x, y, d, r, e),
				None => fail!(&format!("C16:sub-ratio-{cls}"), "{:?} - {:?} = None expected ratio {}", x, y, e),
			}
			if cls == "mixed" {
				st.nontrivial_bulk(1);
			}
		}
		// equality symmetric, and the order agrees with it
		ensure!((x == y) == (y == x), "C16:eq-symmetric", "{:?} == {:?} is not symmetric", x, y);
		if zero_pair(*a, b) {
			// decided by the dedicated check `eq_ord_zero_pair` (known finding), excluded here by
			// construction so that the sweep goes on behind it
			st.count("excluded_zero_pair", 1);
		} else {
			ensure!((x == y) == (x.cmp(&y) == Ordering::Equal), "C16:eq-vs-cmp:other", "{:?} == {:?} is {} but cmp is {:?}", x, y, x == y, x.cmp(&y));
		}
		ensure!(x.partial_cmp(&y) == Some(x.cmp(&y)), "C16:partial-cmp", "partial_cmp({:?},{:?}) != Some(cmp)", x, y);
		ensure!(x.cmp(&y) == y.cmp(&x).reverse(), "C16:cmp-antisymmetric", "cmp({:?},{:?}) vs reversed", x, y);
		ensure!((x <= y) == (x.cmp(&y) != Ordering::Greater), "C16:le-vs-cmp", "{:?} <= {:?}", x, y);
		if x == y {
			// equal actions are indistinguishable by ratio
			ensure!(ratio64(x) == ratio64(y), "C16:eq-ratio", "{:?} == {:?} but ratios differ", x, y);
		}
	}
	st.sample("pairs-of", || serde_json::to_value(a).unwrap());
	Ok(())
}

#[derive(Serialize, Deserialize, Clone, Debug)]
pub struct TripleCase {
	a: A,
	/// candidate set for b and c: full (513) or the boundary subset
	full: bool,
}

fn subset() -> Vec<A> {
	let mut v = vec![A::N];
	for k in [0u8, 1, 2, 127, 128, 254, 255] {
		v.push(A::B(k));
		v.push(A::S(k));
	}
	v
}

fn triples(c: &TripleCase, st: &mut Stats) -> CaseResult {
	let set = if c.full { A::all() } else { subset() };
	let x = c.a.act();
	let mut n = 0u64;
	for &b in &set {
		let y = b.act();
		let xy_eq = x == y;
		let xy_le = x.cmp(&y) != Ordering::Greater;
		if !xy_eq && !xy_le {
			continue;
		}
		for &cc in &set {
			let z = cc.act();
			if xy_eq && y == z {
				ensure!(x == z, "C16:eq-transitive", "{:?} == {:?} == {:?} but first != last", x, y, z);
			}
			if xy_le && y.cmp(&z) != Ordering::Greater {
				ensure!(x.cmp(&z) != Ordering::Greater, "C16:le-transitive", "{:?} <= {:?} <= {:?} but first > last", x, y, z);
			}
			n += 1;
		}
	}
	st.count("triples", n);
	st.nontrivial_bulk(1);
	Ok(())
}

fn zero_pair_check(p: &(A, A), st: &mut Stats) -> CaseResult {
	let (x, y) = (p.0.act(), p.1.act());
	st.nontrivial_bulk(1);
	ensure!((x == y) == (x.cmp(&y) == Ordering::Equal), "C16:eq-vs-cmp:zero-pair", "{:?} == {:?} is {} but cmp is {:?}", x, y, x == y, x.cmp(&y));
	Ok(())
}

fn i8s(v: &i8, st: &mut Stats) -> CaseResult {
	let a = Action::from(*v);
	let e = match v.cmp(&0) {
		Ordering::Greater => Action::BUY_ALL,
		Ordering::Less => Action::SELL_ALL,
		Ordering::Equal => Action::None,
	};
	ensure!(same(a, e), "C16:from-i8", "from({}i8) = {:?}", v, a);
	ensure!(same(Action::from_analog(*v), e), "C16:from-analog", "from_analog({}) = {:?}", v, Action::from_analog(*v));
	ensure!(same(Action::from(Some(*v)), e), "C16:from-opt-i8", "from(Some({})) ", v);
	ensure!(a.analog() == v.signum(), "C16:i8-sign", "analog(from({})) = {}", v, a.analog());
	st.nontrivial_bulk(1);
	Ok(())
}

// ---------------------------------------------------------------------------------------
// floats

/// validity predicate of a float conversion; returns the signed step (None for no signal)
fn check_float(v: f64, a: Action, what: &str) -> Result<Option<i32>, crate::engine::Failure> {
	if v.is_nan() {
		ensure!(a.is_none(), "C16:float-nan", "{} NaN -> {:?}", what, a);
		return Ok(None);
	}
	let (k, neg) = match a {
		Action::None => fail!("C16:float-total", "{} {:e} -> None", what, v),
		Action::Buy(k) => (k as i32, false),
		Action::Sell(k) => (k as i32, true),
	};
	if v > 0.0 {
		ensure!(!neg, "C16:float-sign", "{} {:e} > 0 -> {:?}", what, v, a);
	}
	if v < 0.0 {
		ensure!(neg, "C16:float-sign", "{} {:e} < 0 -> {:?}", what, v, a);
	}
	let r = ratio64(a).unwrap();
	ensure!((-1.0..=1.0).contains(&r), "C16:ratio-range", "ratio({:?}) = {}", a, r);
	let c = v.clamp(-1.0, 1.0);
	let tol = 0.5 / 255.0 + 1e-9 + if cfg!(feature = "value_type_f32") { 1e-6 } else { 0.0 };
	ensure!((r - c).abs() <= tol, "C16:float-nearest", "{} {:e} -> {:?} (ratio {}), distance {:e} > half a step", what, v, a, r, (r - c).abs());
	if v >= 1.0 {
		ensure!(same(a, Action::BUY_ALL), "C16:float-saturate", "{} {:e} -> {:?}", what, v, a);
	}
	if v <= -1.0 {
		ensure!(same(a, Action::SELL_ALL), "C16:float-saturate", "{} {:e} -> {:?}", what, v, a);
	}
	Ok(Some(if neg { -k } else { k }))
}

#[derive(Serialize, Deserialize, Clone, Debug)]
pub struct F32Block {
	/// first bit pattern (sign bit clear), number of patterns, stride
	start: u32,
	count: u32,
	stride: u32,
}

/// walks magnitudes upwards (bit patterns of non-negative floats are ordered like the values)
/// and checks both signs: validity + monotonicity
fn f32_block(b: &F32Block, st: &mut Stats) -> CaseResult {
	let mut last_pos: i32 = if b.start == 0 { 0 } else { step_of_f32(f32::from_bits(b.start - 1))? };
	let mut last_neg: i32 = -last_pos.abs();
	if b.start > 0 {
		last_neg = step_of_f32(-f32::from_bits(b.start - 1))?;
	}
	let mut bits = b.start as u64;
	let mut near = 0u64;
	for _ in 0..b.count {
		if bits > 0x7fff_ffff {
			break;
		}
		let v = f32::from_bits(bits as u32);
		let a = Action::from(v);
		let s = check_float(v as f64, a, "f32")?;
		let an = Action::from(-v);
		let sn = check_float(-v as f64, an, "f32")?;
		let ao = Action::from(Some(v));
		ensure!(same(a, ao), "C16:float-option", "from(Some({:e})) = {:?} but from = {:?}", v, ao, a);
		if let (Some(s), Some(sn)) = (s, sn) {
			ensure!(s >= last_pos, "C16:float-monotone", "f32 {:e} (bits {:#x}) -> step {} after a smaller value gave {}", v, bits, s, last_pos);
			ensure!(sn <= last_neg, "C16:float-monotone", "f32 {:e} -> step {} after a larger value gave {}", -v, sn, last_neg);
			last_pos = s;
			last_neg = sn;
			// near a rounding boundary: x*255 within 3e-6 of k+0.5
			let t = (v as f64) * 255.0;
			if t < 256.0 && ((t - t.floor()) - 0.5).abs() < 3e-5 {
				near += 1;
			}
		}
		bits += b.stride as u64;
	}
	st.count("f32_patterns", 2 * b.count as u64);
	st.nontrivial_bulk(near * 2);
	st.sample("f32-block", || serde_json::to_value(b).unwrap());
	Ok(())
}

fn step_of_f32(v: f32) -> Result<i32, crate::engine::Failure> {
	match Action::from(v) {
		Action::Buy(k) => Ok(k as i32),
		Action::Sell(k) => Ok(-(k as i32)),
		Action::None => {
			if v.is_nan() {
				Ok(0)
			} else {
				fail!("C16:float-total", "f32 {:e} -> None", v)
			}
		}
	}
}

#[derive(Serialize, Deserialize, Clone, Debug)]
pub struct F64Case {
	/// boundary index: x = (k + half/2) / 255, then `ulps` steps away
	k: u16,
	half: u8,
	seed: u64,
	n: u32,
}

fn next_up(x: f64, n: i64) -> f64 {
	// move n ulps (x finite, not crossing zero issues for our positive values)
	let b = x.to_bits() as i64;
	f64::from_bits((b + n) as u64)
}

fn f64_case(c: &F64Case, st: &mut Stats) -> CaseResult {
	// boundary neighbourhood, both signs
	let x0 = (c.k as f64 + c.half as f64 * 0.5) / 255.0;
	let mut vals: Vec<f64> = Vec::new();
	for u in -4i64..=4 {
		if x0 == 0.0 && u < 0 {
			continue;
		}
		vals.push(next_up(x0, u));
	}
	// also the products as the crate's own tests compute them
	vals.push(c.k as f64 * (1.0 / 255.0));
	vals.push((c.k as f64 + 0.5) * (1.0 / 255.0));
	let mut near = vals.len() as u64 * 2;
	// pseudo-random bit patterns derived from the case (pure function of the case)
	let mut s = c.seed;
	for i in 0..c.n {
		s = crate::engine::mix(s, i as u64 + 1);
		let v = match i % 4 {
			0 => f64::from_bits(s),                                            // anything incl. NaN/inf/subnormal
			1 => (s >> 11) as f64 / (1u64 << 53) as f64 * 1.2,                 // [0, 1.2)
			2 => ((s >> 11) as f64 / (1u64 << 53) as f64) * 1e-3,              // small
			_ => f64::from_bits(((s >> 2) & 0x00ff_ffff_ffff_ffff) | 0x3f00_0000_0000_0000), // around 1
		};
		vals.push(v);
	}
	near += 0;
	let mut pairs: Vec<(f64, i32)> = Vec::new();
	for &v in &vals {
		for v in [v, -v] {
			let a = Action::from(v);
			if let Some(s) = check_float(v, a, "f64")? {
				pairs.push((v, s));
			}
			let ao = Action::from(Some(v));
			ensure!(same(a, ao), "C16:float-option", "from(Some({:e})) differs", v);
		}
	}
	pairs.sort_by(|a, b| a.0.partial_cmp(&b.0).unwrap());
	for w in pairs.windows(2) {
		ensure!(w[0].1 <= w[1].1, "C16:float-monotone", "f64 {:e} -> step {} but {:e} -> step {}", w[0].0, w[0].1, w[1].0, w[1].1);
	}
	st.count("f64_values", pairs.len() as u64);
	st.nontrivial_bulk(near);
	st.sample("f64-case", || serde_json::to_value(c).unwrap());
	Ok(())
}

pub fn def(tier: Tier) -> PropertyDef {
	let mut checks: Vec<Box<dyn SubCheck>> = Vec::new();
	checks.push(enumerate("unary", |_, _| Box::new(A::all().into_iter()), unary));
	for part in 0..4usize {
		checks.push(enumerate(
			&format!("pairs_{part}"),
			move |_, _| Box::new(A::all().into_iter().enumerate().filter(move |(i, _)| i % 4 == part).map(|(_, a)| a)),
			pairs,
		));
	}
	let tparts = 16usize;
	for part in 0..tparts {
		checks.push(enumerate(
			&format!("triples_{part:02}"),
			move |tier, _| {
				let full = tier == Tier::Thorough;
				let set = A::all();
				Box::new(
					set.into_iter()
						.enumerate()
						.filter(move |(i, _)| i % tparts == part)
						.map(move |(_, a)| TripleCase { a, full }),
				)
			},
			triples,
		));
	}
	checks.push(enumerate(
		"eq_ord_zero_pair",
		|_, _| Box::new(vec![(A::B(0), A::S(0)), (A::S(0), A::B(0))].into_iter()),
		zero_pair_check,
	));
	checks.push(enumerate("i8", |_, _| Box::new(i8::MIN..=i8::MAX), i8s));
	// f32: all 2^31 magnitudes (both signs checked per magnitude) in thorough; strided in quick
	let fparts = 64u32;
	for part in 0..fparts {
		checks.push(enumerate(
			&format!("f32_{part:02}"),
			move |tier, seed| {
				let span = 0x8000_0000u64 / fparts as u64; // magnitudes per part
				let start = part as u64 * span;
				let mut blocks = Vec::new();
				match tier {
					Tier::Thorough => {
						let bs = 1u64 << 20;
						let mut s = start;
						while s < start + span {
							blocks.push(F32Block { start: s as u32, count: bs as u32, stride: 1 });
							s += bs;
						}
					}
					Tier::Quick => {
						// every 7th pattern, phase from the seed
						let stride = 7u64;
						let phase = crate::engine::mix(seed, part as u64) % stride;
						blocks.push(F32Block { start: (start + phase) as u32, count: ((span - phase) / stride) as u32, stride: stride as u32 });
					}
				}
				Box::new(blocks.into_iter())
			},
			f32_block,
		));
	}
	// f32 boundary neighbourhoods (quick and thorough): +-64 patterns around k/255 and (k+0.5)/255
	checks.push(enumerate(
		"f32_boundaries",
		|_, _| {
			let mut blocks = Vec::new();
			for k in 0..=256u32 {
				for half in 0..2 {
					let x = (k as f32 + half as f32 * 0.5) / 255.0;
					let b = x.to_bits();
					blocks.push(F32Block { start: b.saturating_sub(64), count: 129, stride: 1 });
				}
			}
			// specials: zero/subnormals, around 1, infinities, NaNs
			blocks.push(F32Block { start: 0, count: 4096, stride: 1 });
			blocks.push(F32Block { start: 0x7f7f_ff00, count: 0x200, stride: 1 });
			blocks.push(F32Block { start: 0x7fc0_0000 - 16, count: 64, stride: 1 });
			blocks.push(F32Block { start: 0x7fff_ff00, count: 0x100, stride: 1 });
			Box::new(blocks.into_iter())
		},
		f32_block,
	));
	let f64parts = 8u32;
	for part in 0..f64parts {
		checks.push(enumerate(
			&format!("f64_{part}"),
			move |tier, seed| {
				let n = tier.pick(600u32, 5000);
				let mut v = Vec::new();
				for k in 0..=256u16 {
					if k as u32 % f64parts != part {
						continue;
					}
					for half in 0..2u8 {
						v.push(F64Case { k, half, seed: crate::engine::mix(seed, (k as u64) << 1 | half as u64), n });
					}
				}
				Box::new(v.into_iter())
			},
			f64_case,
		));
	}
	PropertyDef {
		id: "C16",
		level: "exploration",
		rule: "Exhaustive: all 513 actions (unary laws), all 263 169 ordered pairs (Sub lattice arithmetic, Eq/Ord consistency), all 513^3 triples (transitivity), all 256 i8; floats: every f32 bit pattern in the thorough tier (every 7th plus +-64 patterns around every k/255 and (k+0.5)/255 in quick), f64 boundary neighbourhoods (+-4 ulps) and seeded random bit patterns. Oracles are validity predicates independent of the implementation's arithmetic (total, sign-preserving, monotone, nearest step, saturating). Non-trivial (distinct by construction, counted): mixed-sign pairs for Sub, floats within 3e-5 of a rounding boundary, each action/triple row/i8.",
		assumptions: vec!["signed strength s(Buy k)=k, s(Sell k)=-k, s(None)=0 is the model of the ratio".into()],
		exhaustive: tier == Tier::Thorough,
		checks,
	}
}
