//! C17 — timeseries converters keep the information they claim to keep.

use crate::approx::eps;
use crate::engine::{self, pt, CaseResult, Failure, PropertyDef, Stats, SubCheck, Tier};
use crate::ensure;
use crate::gen::{self, CandleStream};
use proptest::prelude::*;
use serde::{Deserialize, Serialize};
use yata::core::{Candle, Method, Sequence, Source, ValueType, OHLCV};
use yata::methods::renko::RenkoBlock;
use yata::methods::{CollapseTimeframe, HeikinAshi, Renko};

// ---------------------------------------------------------------------------------------
// CollapseTimeframe

#[derive(Serialize, Deserialize, Clone, Debug)]
pub struct CollapseCase {
	pub period: usize,
	pub s: CandleStream,
}

fn fold(block: &[Candle]) -> Candle {
	let mut r = block[0];
	for c in &block[1..] {
		r = Candle { open: r.open, high: r.high.max(c.high), low: r.low.min(c.low), close: c.close, volume: r.volume + c.volume };
	}
	r
}

fn run_collapse(c: &CollapseCase, st: &mut Stats) -> CaseResult {
	let cs: Vec<Candle> = c.s.cs.iter().map(|k| k.candle()).collect();
	let p = c.period;
	let mut m = CollapseTimeframe::<Candle>::new(p, &cs[0]).map_err(|e| Failure::new("C17:collapse:ctor", format!("{e:?}")))?;
	let mut streamed = Vec::new();
	for (i, k) in cs.iter().enumerate() {
		let out = m.next(k);
		let due = (i + 1) % p == 0;
		ensure!(out.is_some() == due, "C17:collapse:timing", "CollapseTimeframe({p}) input #{i}: emitted = {} expected {}", out.is_some(), due);
		if let Some(o) = out {
			let e = fold(&cs[i + 1 - p..=i]);
			ensure!(o == e, "C17:collapse:candle", "CollapseTimeframe({p}) after input #{i}: {:?} expected {:?}", o, e);
			streamed.push(o);
		}
	}
	if cs.len() < p {
		// fewer inputs than one period (also no input at all): the batch forms emit nothing, like the stream
		let none: Vec<Candle> = Vec::new();
		for (what, seq) in [("the stream", &cs), ("an empty sequence", &none)] {
			for continuous in [false, true] {
				let r = engine::catch(|| seq.collapse_timeframe(p, continuous)).map_err(|e| Failure::new(format!("C17:collapse:short-{}", e.sig()), format!("collapse_timeframe({p}, {continuous}) on {what} ({} candles) panicked at {}: {}", seq.len(), e.loc, e.msg)))?;
				ensure!(r.is_empty(), "C17:collapse:short", "collapse_timeframe({p}, {continuous}) on {what} ({} candles) returned {} candles", seq.len(), r.len());
			}
		}
	}
	if cs.len() >= p {
		let batch = cs.collapse_timeframe(p, false);
		ensure!(batch == streamed, "C17:collapse:batch", "collapse_timeframe({p}, false) gives {} candles, streaming gave {}; or contents differ", batch.len(), streamed.len());
		let cont = cs.collapse_timeframe(p, true);
		ensure!(cont.len() == cs.len() - p + 1, "C17:collapse:continuous-len", "collapse_timeframe({p}, true) has {} candles for {} inputs", cont.len(), cs.len());
		for (i, o) in cont.iter().enumerate() {
			let e = fold(&cs[i..i + p]);
			ensure!(*o == e, "C17:collapse:continuous", "collapse_timeframe({p}, true)[{i}] = {:?} expected {:?}", o, e);
		}
	}
	if cs.len() >= p.saturating_mul(2) && p > 1 {
		st.nontrivial(engine::mix(p as u64, engine::fnv(format!("{:?}", &c.s.cs[..c.s.cs.len().min(12)]).as_bytes())));
	}
	st.class(if p == 1 { "period=1" } else if p > cs.len() { "period>len" } else { "period<=len" });
	st.sample("collapse", || serde_json::to_value(c).unwrap());
	Ok(())
}

fn collapse_strategy(max_len: usize) -> impl Strategy<Value = CollapseCase> {
	(prop_oneof![6 => 1usize..=12, 3 => 13usize..=64, 1 => 65usize..=10_000, 1 => Just(usize::MAX)], gen::candle_stream(1, max_len)).prop_map(|(period, s)| CollapseCase { period, s })
}

// ---------------------------------------------------------------------------------------
// HeikinAshi validity

fn run_heikin(c: &CandleStream, st: &mut Stats) -> CaseResult {
	let first = c.cs[0].candle();
	let mut m = HeikinAshi::new((), &first).map_err(|e| Failure::new("C17:heikin:ctor", format!("{e:?}")))?;
	for (t, k) in c.cs.iter().enumerate() {
		let inp = k.candle();
		if !inp.validate() {
			return Err(Failure::new("C17:generator", format!("generator produced an invalid candle {:?}", inp)));
		}
		let o = m.next(&inp);
		ensure!(o.validate(), "C17:heikin:validate", "HeikinAshi step {t}: output {:?} does not validate for valid input {:?}", o, inp);
		ensure!(o.low <= o.open && o.low <= o.close && o.open <= o.high && o.close <= o.high, "C17:heikin:order", "HeikinAshi step {t}: output {:?} is not ordered", o);
	}
	if c.cs.len() > 3 {
		st.nontrivial(engine::fnv(format!("{:?}", &c.cs[..c.cs.len().min(12)]).as_bytes()));
	}
	st.sample("heikin", || serde_json::to_value(c).unwrap());
	Ok(())
}

// ---------------------------------------------------------------------------------------
// Renko

#[derive(Serialize, Deserialize, Clone, Copy, Debug)]
pub enum Move {
	/// strictly between the two thresholds, at the given fraction
	Inside(u16),
	/// exactly on the instance's upper / lower threshold, shifted by k ulps
	Upper(i8),
	Lower(i8),
	/// on the boundary as a user computes it from the emitted chain: last upper * (1 + b), shifted by k ulps
	ChainUpper(i8),
	ChainLower(i8),
	/// whole bricks plus a fraction beyond the current block
	JumpUp(u8, u16),
	JumpDown(u8, u16),
}

#[derive(Serialize, Deserialize, Clone, Debug)]
pub struct RenkoCase {
	pub brick: f64,
	pub source: u8,
	pub start: f64,
	pub moves: Vec<(Move, u8)>,
}

fn shift_ulps(x: f64, k: i8) -> f64 {
	let x = gen::vt(x);
	if cfg!(feature = "value_type_f32") {
		let b = (x as f32).to_bits() as i64 + k as i64;
		f32::from_bits(b as u32) as f64
	} else {
		f64::from_bits((x.to_bits() as i64 + k as i64) as u64)
	}
}

fn volume_of(sel: u8) -> f64 {
	match sel % 6 {
		0 => 0.0,
		1 => 1.0,
		2 => 1e9,
		3 => 0.125,
		4 => 3.0,
		_ => sel as f64 * 17.25,
	}
}

fn candle_for(src: Source, p: f64, vol: f64) -> Candle {
	let p = p as ValueType;
	match src {
		// the price path is carried by the volume field
		Source::Volume => Candle { open: 1.0, high: 1.0, low: 1.0, close: 1.0, volume: p },
		_ => Candle { open: p, high: p, low: p, close: p, volume: vol as ValueType },
	}
}

fn state_f(m: &Renko, field: &str) -> Result<f64, Failure> {
	let v = serde_json::to_value(m).map_err(|e| Failure::new("C17:renko:serialize", e.to_string()))?;
	v[field].as_f64().ok_or_else(|| Failure::new("C17:renko:serialize", format!("no field {field} in {v}")))
}

pub fn run_renko(c: &RenkoCase, st: &mut Stats) -> CaseResult {
	let b = gen::vt(c.brick);
	let src = crate::props::c18::SOURCES[c.source as usize % 8];
	// sources that are products/averages of fields are driven through flat candles
	if matches!(src, Source::VolumedPrice) {
		return Ok(());
	}
	let first = candle_for(src, c.start, 1.0);
	let v0 = first.source(src) as f64;
	let mut m = Renko::new((b as ValueType, src), &first).map_err(|e| Failure::new("C17:renko:ctor", format!("Renko::new(({b:e}, {src:?})) failed: {e:?}")))?;
	// model of the chain, from the documented construction and then from emitted bricks only
	let mut up = v0 + v0 * b * 0.5;
	let mut lo = v0 - v0 * b * 0.5;
	let mut pending_volume = 0.0f64;
	let coarse = b < 256.0 * eps(); // brick below the resolution of prices: only consistency is checked
	let rel = 16.0 * eps();
	let mut interesting = false;
	for (step, (mv, vsel)) in c.moves.iter().enumerate() {
		let nu = state_f(&m, "next_block_upper")?;
		let nl = state_f(&m, "next_block_lower")?;
		let price = match *mv {
			Move::Inside(f) => nl + (nu - nl) * ((f as f64 + 1.0) / 65538.0),
			Move::Upper(k) => shift_ulps(nu, k),
			Move::Lower(k) => shift_ulps(nl, k),
			Move::ChainUpper(k) => shift_ulps(up * (1.0 + b), k),
			Move::ChainLower(k) => shift_ulps(lo * (1.0 - b), k),
			Move::JumpUp(n, f) => up * (1.0 + b * (n as f64 % 40.0 + 1.0 + f as f64 / 65536.0)),
			Move::JumpDown(n, f) => {
				let k = n as f64 % 40.0 + 1.0 + f as f64 / 65536.0;
				// stay positive
				let k = if b * k >= 0.95 { (0.9 / b).floor().max(1.0) } else { k };
				lo * (1.0 - b * k)
			}
		};
		let price = gen::vt(price);
		// prices stay in the normal range (a long chain of downward jumps would reach subnormal values,
		// where relative ulp-based tolerances lose their meaning)
		if !(price.is_finite() && price > 1e-150 && price < 1e150) {
			continue;
		}
		let vol = volume_of(*vsel);
		let candle = candle_for(src, price, vol);
		let value = candle.source(src) as f64;
		pending_volume += candle.volume() as f64;
		let out = m.next(&candle);
		let blocks: Vec<RenkoBlock> = out.clone().collect();
		let n = blocks.len();
		// iterator observers agree with the collected blocks
		ensure!(out.len() == n && out.size_hint() == (n, Some(n)) && out.clone().count() == n, "C17:renko:len", "step {step}: len/size_hint/count disagree with {} collected blocks", n);
		ensure!(out.is_empty() == (n == 0), "C17:renko:is_empty", "step {step}: is_empty() = {} with {} blocks", out.is_empty(), n);
		ensure!(out.clone().last() == blocks.last().copied(), "C17:renko:last", "step {step}: last() differs from the last collected block");
		for k in [0usize, 1, n / 2, n.saturating_sub(1), n, n + 1] {
			let got = out.clone().nth(k);
			ensure!(got == blocks.get(k).copied(), "C17:renko:nth", "step {step}: nth({k}) = {:?} expected {:?}", got, blocks.get(k));
		}
		// ... also after a part of the output has been consumed (every split for short outputs, a few for long ones)
		let takes: Vec<usize> = if n <= 8 { (1..=n).collect() } else { vec![1, 2, n / 2, n - 1, n] };
		for &taken in &takes {
			let mut it = out.clone();
			for j in 0..taken {
				ensure!(it.next() == Some(blocks[j]), "C17:renko:next", "step {step}: next() #{j} differs from the collected block");
			}
			let rest = n - taken;
			ensure!(it.len() == rest && it.size_hint() == (rest, Some(rest)) && it.clone().count() == rest, "C17:renko:len-partial", "step {step}: after {taken} of {n} blocks len/size_hint/count do not report {rest}");
			ensure!(it.clone().last() == if rest > 0 { blocks.last().copied() } else { None }, "C17:renko:last-partial", "step {step}: after {taken} of {n} blocks last() is wrong");
			for k in [0usize, 1, rest / 2, rest.saturating_sub(1), rest, rest + 1, 255, 256, 256 + rest / 2, 65535, 65536, 65536 + rest / 2, 1 << 32, (1 << 32) + rest / 2, usize::MAX - 1, usize::MAX] {
				let mut it2 = it.clone();
				let got = it2.nth(k);
				let e = taken.checked_add(k).and_then(|i| blocks.get(i)).copied();
				ensure!(got == e, "C17:renko:nth-partial", "step {step}: after {taken} of {n} blocks nth({k}) = {:?} expected {:?}", got, e);
				// ... and the iterator is left right behind that block (exhausted when there is none)
				let left = it2.len();
				let tail: Vec<RenkoBlock> = it2.collect();
				let e: &[RenkoBlock] = if k < rest { &blocks[taken + k + 1..] } else { &[] };
				ensure!(left == e.len() && tail == e, "C17:renko:nth-remainder", "step {step}: after {taken} of {n} blocks and nth({k}) {} blocks are left ({} collected), expected {}", left, tail.len(), e.len());
				let got: Vec<RenkoBlock> = it.clone().skip(k).take(70).collect();
				let e: Vec<RenkoBlock> = blocks[taken..].iter().skip(k).take(70).copied().collect();
				ensure!(got == e, "C17:renko:skip-partial", "step {step}: after {taken} of {n} blocks skip({k}) yields {} blocks, expected {}", got.len(), e.len());
			}
			let got = it.clone().fold((0usize, 0u64), |a, b| (a.0 + 1, engine::mix(a.1, (b.open as f64).to_bits() ^ (b.close as f64).to_bits().rotate_left(21))));
			let e = blocks[taken..].iter().fold((0usize, 0u64), |a, b| (a.0 + 1, engine::mix(a.1, (b.open as f64).to_bits() ^ (b.close as f64).to_bits().rotate_left(21))));
			ensure!(got == e, "C17:renko:fold-partial", "step {step}: after {taken} of {n} blocks fold visits {} blocks, expected {} (or other blocks)", got.0, e.0);
			let stepped: Vec<RenkoBlock> = it.clone().take(64).step_by(2).collect();
			let expect: Vec<RenkoBlock> = blocks[taken..].iter().take(64).step_by(2).copied().collect();
			ensure!(stepped == expect, "C17:renko:step_by-partial", "step {step}: after {taken} of {n} blocks step_by(2) yields {} blocks, expected {}", stepped.len(), expect.len());
		}
		let next_up = up * (1.0 + b);
		let next_lo = lo * (1.0 - b);
		if !coarse {
			// at least one brick exactly when the price has reached the next boundary
			if value >= next_up * (1.0 + rel) || value <= next_lo * (1.0 - rel) {
				ensure!(n >= 1, "C17:renko:missing-brick", "step {step}: price {value:e} is beyond the boundary ({next_lo:e}, {next_up:e}) but no brick was emitted");
			}
			if value < next_up * (1.0 - rel) && value > next_lo * (1.0 + rel) {
				ensure!(n == 0, "C17:renko:spurious-brick", "step {step}: price {value:e} is inside ({next_lo:e}, {next_up:e}) but {n} bricks were emitted");
			}
		}
		if n == 0 {
			ensure!(out.sign() == 0 && !out.is_rising() && !out.is_falling(), "C17:renko:empty-sign", "step {step}: an empty output has a direction");
			continue;
		}
		let sign = blocks[0].sign();
		let rising = sign > 0;
		ensure!(out.sign() == sign && out.is_rising() == rising && out.is_falling() == !rising, "C17:renko:direction", "step {step}: output direction differs from its blocks");
		if !coarse {
			ensure!(if rising { value >= next_up * (1.0 - rel) } else { value <= next_lo * (1.0 + rel) }, "C17:renko:wrong-direction", "step {step}: {} bricks for price {value:e} with boundaries ({next_lo:e}, {next_up:e})", if rising { "rising" } else { "falling" });
		}
		// chain: first block continues from the previous block edge on the side of the move
		let base = if rising { up } else { lo };
		let tol = |x: f64| 8.0 * eps() * x.abs();
		ensure!((blocks[0].open as f64 - base).abs() <= tol(base), "C17:renko:chain-start", "step {step}: first block opens at {:e}, previous block edge is {:e}", blocks[0].open, base);
		let mut vsum = 0.0;
		for (i, blk) in blocks.iter().enumerate() {
			ensure!(blk.sign() == sign, "C17:renko:mixed-direction", "step {step}: block #{i} has another direction");
			if i + 1 < n {
				ensure!(blk.close.to_bits() == blocks[i + 1].open.to_bits(), "C17:renko:contiguous", "step {step}: block #{i} closes at {:e} but #{} opens at {:e}", blk.close, i + 1, blocks[i + 1].open);
			}
			let size = (blk.close as f64 - blk.open as f64) * sign as f64;
			let esize = b * base;
			ensure!((size - esize).abs() <= tol(blk.close as f64) + tol(esize), "C17:renko:size", "step {step}: block #{i} has size {size:e}, expected brick*base = {esize:e}");
			ensure!(blk.upper_bound() >= blk.lower_bound() && blk.high() == blk.upper_bound() && blk.low() == blk.lower_bound(), "C17:renko:bounds", "step {step}: block bounds");
			vsum += blk.volume as f64;
		}
		let last = blocks[n - 1];
		if !coarse {
			// the bricks cover the move: last close has been reached, one more brick has not
			let reached = if rising { last.close as f64 <= value * (1.0 + rel) } else { last.close as f64 >= value * (1.0 - rel) };
			ensure!(reached, "C17:renko:overshoot", "step {step}: last block closes at {:e}, beyond the price {value:e}", last.close);
			let one_more = if rising { last.close as f64 + b * base } else { last.close as f64 - b * base };
			let not_yet = if rising { value < one_more * (1.0 + rel) } else { value > one_more * (1.0 - rel) };
			ensure!(not_yet, "C17:renko:undershoot", "step {step}: price {value:e} reaches a further brick edge {one_more:e} that was not emitted ({n} blocks)");
		}
		// volume consumed since the previous emission
		let vtol = 4.0 * eps() * (n as f64 + 2.0) * pending_volume.abs() + 1e-300;
		ensure!((vsum - pending_volume).abs() <= vtol, "C17:renko:volume", "step {step}: blocks carry volume {vsum:e}, consumed since the last emission {pending_volume:e}");
		ensure!((out.volume() as f64 - pending_volume).abs() <= vtol, "C17:renko:volume-view", "step {step}: output volume {:e}, consumed {pending_volume:e}", out.volume());
		// OHLCV view of the whole output
		ensure!(out.open().to_bits() == blocks[0].open.to_bits(), "C17:renko:view-open", "step {step}: open() {:e} != first block open {:e}", out.open(), blocks[0].open);
		ensure!((out.close() as f64 - last.close as f64).abs() <= tol(last.close as f64), "C17:renko:view-close", "step {step}: close() {:e} != last block close {:e}", out.close(), last.close);
		// high / low of the view are exactly the larger / smaller of its own open and close
		ensure!(out.high() == out.open().max(out.close()) && out.low() == out.open().min(out.close()), "C17:renko:view-hl", "step {step}: view open {:e} close {:e} but high {:e} low {:e}", out.open(), out.close(), out.high(), out.low());
		ensure!((out.gap() as f64 - (out.close() as f64 - out.open() as f64) / out.open() as f64).abs() <= 8.0 * eps() * (n as f64 + 2.0) * (1.0 + b * n as f64), "C17:renko:view-gap", "step {step}: gap() {:e} is not the relative size of the move from {:e} to {:e}", out.gap(), out.open(), out.close());
		pending_volume = 0.0;
		if rising {
			up = last.close as f64;
			lo = last.open as f64;
		} else {
			lo = last.close as f64;
			up = last.open as f64;
		}
		interesting |= n >= 2 || matches!(mv, Move::Upper(_) | Move::Lower(_) | Move::ChainUpper(_) | Move::ChainLower(_));
		st.count("emissions", 1);
		if n >= 2 {
			st.count("multi_brick_steps", 1);
		}
	}
	st.count("renko_steps", c.moves.len() as u64);
	if interesting {
		st.nontrivial(engine::fnv(format!("{:?}", c).as_bytes()));
	}
	st.class(if coarse { "brick<256eps" } else { "brick-normal" });
	st.sample(if coarse { "renko/tiny-brick" } else { "renko" }, || serde_json::to_value(c).unwrap());
	Ok(())
}

fn renko_strategy(max_moves: usize) -> impl Strategy<Value = RenkoCase> {
	let brick = prop_oneof![
		3 => proptest::sample::select(vec![0.01f64, 0.25, 0.5, 0.1, 0.001, 0.05]),
		3 => (1e-6f64..0.9),
		1 => proptest::sample::select(vec![f64::EPSILON, 2.0 * f64::EPSILON, 1e-12, 1e-9, 0.999999, 0.9999999999999999, 0.75]),
	];
	let mv = prop_oneof![
		4 => any::<u16>().prop_map(Move::Inside),
		3 => (-3i8..=3).prop_map(Move::Upper),
		3 => (-3i8..=3).prop_map(Move::Lower),
		2 => (-3i8..=3).prop_map(Move::ChainUpper),
		2 => (-3i8..=3).prop_map(Move::ChainLower),
		3 => (any::<u8>(), any::<u16>()).prop_map(|(a, b)| Move::JumpUp(a, b)),
		3 => (any::<u8>(), any::<u16>()).prop_map(|(a, b)| Move::JumpDown(a, b)),
		1 => (0u8..3).prop_map(|a| Move::JumpUp(a, 0)),
		1 => (0u8..3).prop_map(|a| Move::JumpDown(a, 0)),
	];
	(brick, 0u8..8, prop_oneof![Just(100.0f64), Just(1.0), 1e-3f64..1e5], proptest::collection::vec((mv, any::<u8>()), 1..max_moves)).prop_map(|(brick, source, start, moves)| RenkoCase { brick, source, start, moves })
}

pub fn def(tier: Tier) -> PropertyDef {
	let mut checks: Vec<Box<dyn SubCheck>> = Vec::new();
	for i in 0..2 {
		checks.push(pt(&format!("collapse_{i}"), tier.pick(15000, 60000), collapse_strategy(tier.pick(150, 600)), run_collapse));
	}
	checks.push(pt("heikin_ashi_valid", tier.pick(4000, 40000), gen::candle_stream(1, 300), run_heikin));
	for i in 0..6 {
		checks.push(pt(&format!("renko_{i}"), tier.pick(20000, 100000), renko_strategy(tier.pick(60, 200)), run_renko));
	}
	checks.extend(crate::fuzz_entry::corpus_checks("C17"));
	PropertyDef {
		id: "C17",
		level: "exploration",
		rule: "CollapseTimeframe: valid candle streams, periods 1..=64, up to 10^4 and usize::MAX; oracle = bit-exact left-to-right fold of each block (streaming, batch and continuous batch). HeikinAshi: outputs validate and are ordered for valid inputs. Renko: op sequences of moves placed relative to the instance's own thresholds (read from its serialized state): inside, exactly on / +-1..3 ulps around the upper and lower threshold, on the boundary computed from the emitted chain, multi-brick jumps and reversals, zero and huge volumes, brick sizes nice/random/next to EPSILON and 1, seven sources; oracle = brick-chain validity predicate (no panic, trigger iff boundary reached outside a 16 eps band, one direction, bit-contiguous, size = brick*base, chain continuation, cover of the move, volume conservation, iterator observers and OHLCV view). Non-trivial = a step with >= 2 bricks or a price placed on/next to a threshold that emitted; distinct by hash of the case.",
		assumptions: vec![
			"Renko thresholds are observed through the instance's Serialize form only to place generated prices; the oracle's chain model is rebuilt from the emitted bricks".into(),
			"brick sizes below 256*eps (below the resolution of prices) are checked for consistency and panic-freedom only".into(),
		],
		exhaustive: false,
		checks,
	}
}
