//! C04 — extremum, arg-extremum and median methods are exact selections.

use crate::engine::{self, enumerate, pt, CaseResult, PropertyDef, Stats, SubCheck, Tier};
use crate::gen::{self, Domain, ValStream};
use crate::refm::{self, sel};
use crate::{ensure};
use proptest::prelude::*;
use yata::core::{Method, PeriodType, ValueType};
use yata::helpers::Peekable;
use yata::methods::{Highest, HighestIndex, HighestLowestDelta, Lowest, LowestIndex, MedianAbsDev, SMM};

fn v(x: f64) -> ValueType {
	x as ValueType
}

/// numerically equal (so +0 and -0 are interchangeable, nothing else is)
fn same(a: f64, b: f64) -> bool {
	a == b
}

pub fn run(c: &ValStream, st: &mut Stats) -> CaseResult {
	let n = c.n as usize;
	let len = c.n as PeriodType;
	let init = v(c.init);
	let initf = init as f64;
	let xs: Vec<f64> = c.xs.iter().map(|&x| gen::vt(x)).collect();
	let mut hi = Highest::new(len, &init).map_err(|e| engine::Failure::new("C04:ctor", format!("Highest::new({len}): {e:?}")))?;
	let mut lo = Lowest::new(len, &init).map_err(|e| engine::Failure::new("C04:ctor", format!("{e:?}")))?;
	let mut hld = HighestLowestDelta::new(len, &init).map_err(|e| engine::Failure::new("C04:ctor", format!("{e:?}")))?;
	let mut hidx = HighestIndex::new(len, &init).map_err(|e| engine::Failure::new("C04:ctor", format!("{e:?}")))?;
	let mut lidx = LowestIndex::new(len, &init).map_err(|e| engine::Failure::new("C04:ctor", format!("{e:?}")))?;
	let mut smm = SMM::new(len, &init).map_err(|e| engine::Failure::new("C04:ctor", format!("{e:?}")))?;
	let mut mad = if n >= 2 { Some(MedianAbsDev::new(len, &init).map_err(|e| engine::Failure::new("C04:ctor", format!("{e:?}")))?) } else { None };
	let mut nontrivial = false;
	let mut prev_max_age = 0usize;
	for (t, &x) in xs.iter().enumerate() {
		let w = refm::window(&xs, initf, t, n);
		let xv = v(x);
		let (emax, emin) = (sel::max(&w), sel::min(&w));
		let got = hi.next(&xv) as f64;
		ensure!(same(got, emax), "C04:highest", "Highest({n}) step {t}: {got:e} expected {emax:e}; window {:?}", w);
		ensure!(same(hi.peek() as f64, got), "C04:highest-peek", "peek differs at step {t}");
		let got = lo.next(&xv) as f64;
		ensure!(same(got, emin), "C04:lowest", "Lowest({n}) step {t}: {got:e} expected {emin:e}; window {:?}", w);
		ensure!(same(lo.peek() as f64, got), "C04:lowest-peek", "Lowest({n}) step {t}: peek() = {:e}, next returned {got:e}; window {:?}", lo.peek(), w);
		let got = hld.next(&xv) as f64;
		let ed = gen::vt(emax - emin);
		ensure!(same(got, ed), "C04:delta", "HighestLowestDelta({n}) step {t}: {got:e} expected {ed:e}; window {:?}", w);
		ensure!(same(hld.peek() as f64, got), "C04:delta-peek", "HighestLowestDelta({n}) step {t}: peek() = {:e}, next returned {got:e}; window {:?}", hld.peek(), w);
		let got = hidx.next(&xv) as usize;
		let ea = sel::newest_argmax_age(&w);
		ensure!(got == ea, "C04:highest-index", "HighestIndex({n}) step {t}: {got} expected {ea}; window {:?}", w);
		ensure!(hidx.peek() as usize == got, "C04:highest-index-peek", "HighestIndex({n}) step {t}: peek() = {}, next returned {got}; window {:?}", hidx.peek(), w);
		let got = lidx.next(&xv) as usize;
		let eb = sel::newest_argmin_age(&w);
		ensure!(got == eb, "C04:lowest-index", "LowestIndex({n}) step {t}: {got} expected {eb}; window {:?}", w);
		ensure!(lidx.peek() as usize == got, "C04:lowest-index-peek", "LowestIndex({n}) step {t}: peek() = {}, next returned {got}; window {:?}", lidx.peek(), w);
		let got = smm.next(&xv) as f64;
		let em = gen::vt(sel::median(&w));
		ensure!(same(got, em), "C04:smm", "SMM({n}) step {t}: {got:e} expected {em:e}; window {:?}", w);
		ensure!(same(smm.peek() as f64, got), "C04:smm-peek", "peek differs at step {t}");
		// SMM::get_window must be the model window (bit-exact: it only stores)
		let gw: Vec<u64> = smm.get_window().iter_rev().map(|x| (*x as f64).to_bits()).collect();
		let ew: Vec<u64> = w.iter().map(|x| x.to_bits()).collect();
		ensure!(gw == ew, "C04:smm-window", "SMM({n}).get_window() differs from the last {n} inputs at step {t}");
		if let Some(m) = mad.as_mut() {
			m.next(&xv);
			let got = m.get_smm().peek() as f64;
			ensure!(same(got, em), "C04:mad-median", "MedianAbsDev({n}) inner median step {t}: {got:e} expected {em:e}; window {:?}", w);
			let gw: Vec<u64> = m.get_smm().get_window().iter_rev().map(|x| (*x as f64).to_bits()).collect();
			ensure!(gw == ew, "C04:mad-window", "MedianAbsDev({n}) window differs at step {t}");
		}
		if t >= 1 && (sel::has_extremum_tie(&w) && emax != emin || sel::has_both_zeros(&w) || (prev_max_age + 1 == n && ea != 0)) {
			nontrivial = true;
		}
		prev_max_age = ea;
	}
	if nontrivial {
		st.nontrivial(engine::mix(c.n as u64, engine::fnv_f64s(&xs) ^ c.init.to_bits()));
	}
	st.count("steps", xs.len() as u64);
	st.class(if n <= 4 { "n<=4" } else if n < 127 { "n<127" } else { "n>=127" });
	st.sample(if n <= 4 { "small-n" } else { "large-n" }, || serde_json::to_value(c).unwrap());
	Ok(())
}

/// streams over a small alphabet that forces ties, both zeros included
fn alphabet_stream(max_len: usize) -> impl Strategy<Value = ValStream> {
	let letters = prop_oneof![
		Just(vec![-0.0f64, 0.0, -2.0, 1.0]),
		Just(vec![-0.0f64, 0.0, 1.0]),
		Just(vec![-0.0f64, 0.0, -1.0, 1.0, -2.0, 2.0]),
		Just(vec![1.0f64, 2.0, 3.0]),
		Just(vec![-3.0f64, -1.0, 0.0, 1.0, 3.0]),
		proptest::collection::vec(-1e3f64..1e3, 3..6),
	];
	(gen::length_strategy(1), letters, proptest::collection::vec(any::<u16>(), 1..max_len), any::<u16>()).prop_map(|(n, letters, idx, i0)| {
		let pick = |i: u16| letters[(i as usize * letters.len()) >> 16];
		let xs: Vec<f64> = idx.iter().map(|&i| pick(i)).collect();
		let init = if i0 % 3 == 0 { pick(i0) } else { xs[0] };
		ValStream { n, init, xs }
	})
}

/// short window, long stream, tiny alphabet: the window is replaced many times
fn small_n_alphabet(max_len: usize) -> impl Strategy<Value = ValStream> {
	(1u32..=6, proptest::collection::vec(0u8..4, 1..max_len), 0u8..5).prop_map(|(n, idx, i0)| {
		let letters = [-0.0f64, 0.0, -2.0, 1.0];
		let xs: Vec<f64> = idx.iter().map(|&i| letters[i as usize]).collect();
		let init = if i0 < 4 { letters[i0 as usize] } else { xs[0] };
		ValStream { n, init, xs }
	})
}

/// every stream of length <= L over {-0.0, +0.0, -2, 1} for n in 1..=4, every init letter
fn exhaustive(tier: Tier, part: u32, parts: u32) -> Box<dyn Iterator<Item = ValStream>> {
	let letters = [-0.0f64, 0.0, -2.0, 1.0];
	let maxl = tier.pick(7u32, 9);
	let mut out = Vec::new();
	for l in 1..=maxl {
		let count = 4u64.pow(l);
		for code in 0..count {
			if (code % parts as u64) as u32 != part {
				continue;
			}
			let xs: Vec<f64> = (0..l).map(|k| letters[((code >> (2 * k)) & 3) as usize]).collect();
			for n in 1..=4u32 {
				// init = first element (API contract) and one other letter
				out.push(ValStream { n, init: xs[0], xs: xs.clone() });
				let alt = letters[((code as usize) + n as usize) % 4];
				if alt.to_bits() != xs[0].to_bits() {
					out.push(ValStream { n, init: alt, xs: xs.clone() });
				}
			}
		}
	}
	Box::new(out.into_iter())
}

pub fn def(tier: Tier) -> PropertyDef {
	let mut checks: Vec<Box<dyn SubCheck>> = Vec::new();
	let parts = 8u32;
	for part in 0..parts {
		checks.push(enumerate(&format!("exhaustive_small_{part}"), move |tier, _| exhaustive(tier, part, parts), run));
	}
	let max_len = tier.pick(400usize, 1500);
	for i in 0..4 {
		checks.push(pt(&format!("segments_{i}"), tier.pick(2500, 10000), gen::val_stream(1, max_len, Domain::Any, true), run));
		checks.push(pt(&format!("alphabet_{i}"), tier.pick(2500, 10000), alphabet_stream(max_len), run));
	}
	checks.push(pt("small_n_alphabet", tier.pick(20000, 80000), small_n_alphabet(60), run));
	checks.extend(crate::fuzz_entry::corpus_checks("C04"));
	PropertyDef {
		id: "C04",
		level: "exploration",
		rule: "Bounded-exhaustive: every stream of length <= 7 (thorough: 9) over {-0.0,+0.0,-2,1} for n in 1..=4 with two construction values; proptest: tie-forcing alphabet streams and segment-built streams (plateaus, monotone runs, saw-tooth, alternations, lattices) for every length 1..=254, init = first element or an independent prehistory value. Oracle: max/min/difference/age of newest extremum/mean of middle order statistics of the last n padded inputs, compared with == (no tolerance). Non-trivial = some window holds a tie for the extremum with max != min, or both signs of zero, or the step at which the tracked maximum leaves the window; distinct by hash of (n, init, stream).",
		assumptions: vec!["inputs finite (the methods document that they reject NaN)".into()],
		exhaustive: false,
		checks,
	}
}
