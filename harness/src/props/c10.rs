//! C10 — invalid parameters are rejected with an error; accepted instances never panic.

use crate::cfggen;
use crate::dyni::{self, DynCfg};
use crate::dynm::{self, In, InKind, MParams, ParamKind};
use crate::engine::{self, enumerate, pt, CaseResult, Failure, PropertyDef, Stats, SubCheck, Tier};
use crate::gen::{C5, Fx};
use crate::{ensure, fail};
use proptest::prelude::*;
use serde::{Deserialize, Serialize};
use serde_json::{json, Value};
use yata::core::{PeriodType, Source};
use yata::helpers::MA;

pub const FLOAT_BOUNDARY: [f64; 14] = [f64::NAN, f64::INFINITY, f64::NEG_INFINITY, -1.0, -0.0, 0.0, 1e-300, f64::EPSILON, 0.5, 1.0, 1.0 + f64::EPSILON, 2.0, 1e300, 0.999_999_999];

fn pmax() -> u64 {
	PeriodType::MAX as u64
}

/// all values of PeriodType for the default type; boundary + spread for the wide types
pub fn all_periods() -> Vec<u64> {
	if pmax() <= 255 {
		(0..=255).collect()
	} else {
		let m = pmax();
		let mut v: Vec<u64> = (0..=300).collect();
		v.extend([1000, 5000, 65534, 65535, 65536].iter().filter(|x| **x <= m));
		v.extend([m - 1, m]);
		v.sort();
		v.dedup();
		// constructing windows of billions of elements is not a parameter-validation question
		v.retain(|x| *x <= 70_000 || *x >= m - 1);
		v
	}
}

/// deterministic valid value stream: volatile -> exactly flat -> volatile -> zeros -> volatile
pub fn canned_values(len: usize, positive: bool) -> Vec<f64> {
	(0..len)
		.map(|i| {
			let phase = (i * 5) / len.max(1);
			let r = (engine::mix(0xabcdef, i as u64) >> 11) as f64 / (1u64 << 53) as f64;
			match phase {
				0 | 2 | 4 => {
					let v = 100.0 + (r - 0.5) * 40.0 + (i % 7) as f64;
					if positive || i % 11 != 0 {
						v
					} else {
						-v
					}
				}
				1 => 123.5,
				_ => {
					if positive {
						1e-3
					} else {
						0.0
					}
				}
			}
		})
		.collect()
}

/// deterministic valid candle stream with flat, limit (high == low) and zero-volume stretches
pub fn canned_candles(len: usize) -> Vec<C5> {
	let mut out = Vec::with_capacity(len);
	let mut prev = 100.0;
	for i in 0..len {
		let phase = (i * 6) / len.max(1);
		let r = engine::mix(0x5eed, i as u64);
		let u = (r >> 11) as f64 / (1u64 << 53) as f64;
		let c = match phase {
			1 => 101.25,
			3 => prev,
			_ => (prev * (1.0 + (u - 0.5) * 0.06)).clamp(1.0, 1e4),
		};
		let o = if phase == 1 || phase == 3 { c } else { prev };
		let (h, l) = if phase == 1 || phase == 3 || r % 5 == 0 { (o.max(c), o.min(c)) } else { (o.max(c) * 1.004, o.min(c) * 0.996) };
		let v = match phase {
			2 => 0.0,
			1 => 10.0,
			_ => ((r >> 20) % 1000) as f64,
		};
		out.push(C5 { o, h, l, c, v });
		prev = c;
	}
	out
}

// ---------------------------------------------------------------------------------------
// methods

#[derive(Serialize, Deserialize, Clone, Debug)]
pub struct MCase {
	pub kind: String,
	pub params: MParams,
	/// initial value (may be non-finite)
	pub init: Fx,
}

fn init_in(kind: InKind, v: f64) -> In {
	match kind {
		InKind::V => In::V(v),
		InKind::P => In::P(v, if v.is_finite() { 3.0 } else { v }),
		InKind::C => In::C(C5 { o: v, h: v, l: v, c: v, v: 5.0 }),
	}
}

/// is this parameter documented as too small / out of range, so that the constructor must refuse it?
fn must_reject(k: &dynm::MethodKind, p: &MParams) -> bool {
	match (k.params, p) {
		(ParamKind::Len(min, _), MParams::Len(n)) => (*n as u32) < min && *n <= pmax(),
		(ParamKind::TsiPair, MParams::Pair(a, b)) => *a == 0 || *b == 0,
		(ParamKind::RevPair, MParams::Pair(a, b)) => *a == 0 || *b == 0,
		(ParamKind::Weights, MParams::Weights(w)) => w.is_empty(),
		(ParamKind::Renko, MParams::Renko(b, _)) => !(*b > 0.0 && *b < 1.0),
		(ParamKind::Collapse, MParams::Collapse(n)) => *n == 0,
		_ => false,
	}
}

fn feed_len(p: &MParams) -> usize {
	let n = match p {
		MParams::Len(n) => *n,
		MParams::Pair(a, b) => a + b,
		MParams::Weights(w) => w.len() as u64,
		_ => 10,
	};
	(3 * n.min(70_000) + 20) as usize
}

fn run_method(c: &MCase, st: &mut Stats) -> CaseResult {
	let k = dynm::kind(&c.kind).ok_or_else(|| Failure::new("C10:harness", format!("unknown kind {}", c.kind)))?;
	let init = init_in(k.input, c.init.0);
	let desc = || format!("{}::new({:?}, init {:?})", c.kind, c.params, c.init.0);
	let r = engine::catch(|| (k.make)(&c.params, &init));
	let made = match r {
		Err(p) => return Err(Failure::new(format!("C10:ctor-{}", p.sig()), format!("{} panicked at {}: {}", desc(), p.loc, p.msg))),
		Ok(m) => m,
	};
	let rejected = made.is_err();
	if must_reject(&k, &c.params) {
		ensure!(rejected, &format!("C10:{}:accepts-invalid", c.kind), "{} returned Ok for a parameter documented as invalid", desc());
		st.class("rejected");
		st.nontrivial_bulk(1);
		return Ok(());
	}
	let Ok(mut m) = made else {
		st.class("rejected");
		return Ok(());
	};
	st.class("accepted");
	// an accepted instance processes a valid finite stream without panicking
	let n = feed_len(&c.params);
	let r = engine::catch(|| {
		match k.input {
			InKind::C => {
				for cd in canned_candles(n) {
					m.next(&In::C(cd));
				}
			}
			InKind::P => {
				let vs = canned_values(n, true);
				for (i, x) in canned_values(n, false).into_iter().enumerate() {
					m.next(&In::P(x, vs[(i * 7) % n]));
				}
			}
			InKind::V => {
				let positive = c.kind == "RateOfChange";
				for x in canned_values(n, positive) {
					m.next(&In::V(x));
				}
			}
		}
		let _ = m.peek();
	});
	if let Err(p) = r {
		return Err(Failure::new(format!("C10:next-{}", p.sig()), format!("{} was accepted but panicked on a valid stream at {}: {}", desc(), p.loc, p.msg)));
	}
	st.nontrivial_bulk(1);
	st.sample(&c.kind, || serde_json::to_value(c).unwrap());
	Ok(())
}

fn method_len_cases(part: usize, parts: usize) -> Box<dyn Iterator<Item = MCase>> {
	let mut out = Vec::new();
	for (i, k) in dynm::kinds().into_iter().enumerate() {
		if i % parts != part {
			continue;
		}
		match k.params {
			ParamKind::Len(_, _) => {
				for n in all_periods() {
					out.push(MCase { kind: k.name.into(), params: MParams::Len(n), init: Fx(50.0) });
				}
				// non-finite and special construction values on a valid length
				for &f in &FLOAT_BOUNDARY {
					for n in [1u64, 2, 3, 254] {
						out.push(MCase { kind: k.name.into(), params: MParams::Len(n), init: Fx(f) });
					}
				}
			}
			ParamKind::Unit => {
				for &f in &FLOAT_BOUNDARY {
					out.push(MCase { kind: k.name.into(), params: MParams::Unit, init: Fx(f) });
				}
			}
			ParamKind::Weights => {
				for len in [0usize, 1, 2, 3, 253, 254, 255, 256, 300] {
					for fill in [1.0, 0.0, -1.0, f64::NAN, f64::INFINITY, 1e300, 0.25] {
						let mut w = vec![fill; len];
						if len > 1 {
							w[0] = 1.0;
						}
						out.push(MCase { kind: k.name.into(), params: MParams::Weights(w), init: Fx(50.0) });
					}
				}
			}
			ParamKind::Renko => {
				for &b in FLOAT_BOUNDARY.iter().chain([0.01, 0.25, 0.999999].iter()) {
					for s in 0..8u8 {
						out.push(MCase { kind: k.name.into(), params: MParams::Renko(b, s), init: Fx(50.0) });
					}
				}
			}
			ParamKind::Collapse => {
				for n in [0usize, 1, 2, 3, 255, 256, usize::MAX - 1, usize::MAX] {
					out.push(MCase { kind: k.name.into(), params: MParams::Collapse(n), init: Fx(50.0) });
				}
			}
			_ => {}
		}
	}
	Box::new(out.into_iter())
}

fn pair_cases(tier: Tier, seed: u64, part: usize, parts: usize) -> Box<dyn Iterator<Item = MCase>> {
	let grid: Vec<u64> = {
		let m = pmax();
		let mut g = vec![0, 1, 2, 3, 4, 5, 62, 63, 64, 126, 127, 128, 129, 200, 250, 251, 252, 253, 254, 255, 256, 300, 65535, m - 1, m];
		g.retain(|x| *x <= m);
		g.sort();
		g.dedup();
		g
	};
	let names = ["TSI", "ReversalSignal", "UpperReversalSignal", "LowerReversalSignal"];
	let mut out = Vec::new();
	let full = tier == Tier::Thorough && pmax() <= 255;
	for (ni, name) in names.iter().enumerate() {
		if full {
			for a in 0..=255u64 {
				if (a as usize + ni) % parts != part {
					continue;
				}
				for b in 0..=255u64 {
					out.push(MCase { kind: name.to_string(), params: MParams::Pair(a, b), init: Fx(50.0) });
				}
			}
		} else {
			for (i, &a) in grid.iter().enumerate() {
				if (i + ni) % parts != part {
					continue;
				}
				for &b in &grid {
					out.push(MCase { kind: name.to_string(), params: MParams::Pair(a, b), init: Fx(50.0) });
				}
			}
			// seeded random pairs (pure function of the seed)
			for j in 0..500u64 {
				if (j as usize) % parts != part {
					continue;
				}
				let r = engine::mix(seed ^ (ni as u64) << 40, j);
				let m = pmax().min(300) + 1;
				out.push(MCase { kind: name.to_string(), params: MParams::Pair(r % m, (r >> 20) % m), init: Fx(50.0) });
			}
		}
	}
	Box::new(out.into_iter())
}

// ---------------------------------------------------------------------------------------
// indicators

#[derive(Serialize, Deserialize, Clone, Debug)]
pub struct ICase {
	pub name: String,
	/// full configuration as JSON (floats that JSON cannot carry are set through `set`)
	pub cfg: Value,
	/// (key, text) applied through `set` afterwards: used for NaN/inf values
	pub sets: Vec<(String, String)>,
}

fn build_cfg(c: &ICase) -> Result<Option<Box<dyn DynCfg>>, Failure> {
	let k = dyni::kind(&c.name).ok_or_else(|| Failure::new("C10:harness", format!("unknown indicator {}", c.name)))?;
	let cfg = if c.cfg.is_null() { Ok((k.default)()) } else { (k.from_json)(&c.cfg) };
	let Ok(mut cfg) = cfg else {
		// not representable in the configuration's types (e.g. 256 for u8): outside the quantifier
		return Ok(None);
	};
	for (key, text) in &c.sets {
		let r = engine::catch(|| cfg.set(key, text.clone()));
		match r {
			Err(p) => return Err(Failure::new(format!("C10:set-{}", p.sig()), format!("{}::set({:?}, {:?}) panicked at {}: {}", c.name, key, text, p.loc, p.msg))),
			Ok(Err(_)) => return Ok(None),
			Ok(Ok(())) => {}
		}
	}
	Ok(Some(cfg))
}

fn run_indicator(c: &ICase, st: &mut Stats) -> CaseResult {
	let Some(cfg) = build_cfg(c)? else {
		st.class("unrepresentable");
		return Ok(());
	};
	let desc = || format!("{} {} sets {:?}", c.name, cfg.to_json(), c.sets);
	let valid = engine::catch(|| cfg.validate()).map_err(|p| Failure::new(format!("C10:validate-{}", p.sig()), format!("{}: validate() panicked at {}: {}", desc(), p.loc, p.msg)))?;
	let mp = cfggen::max_period(&cfg.to_json()).min(70_000) as usize;
	let candles = canned_candles(3 * mp + 20);
	let first = candles[0].candle();
	let inst = engine::catch(|| cfg.init(&first)).map_err(|p| Failure::new(format!("C10:init-{}", p.sig()), format!("{}: init panicked at {}: {}", desc(), p.loc, p.msg)))?;
	if !valid {
		ensure!(inst.is_err(), &format!("C10:{}:init-ignores-validate", c.name), "{}: validate() is false but init returned Ok", desc());
		st.class("invalid-rejected");
		st.nontrivial_bulk(1);
		return Ok(());
	}
	let Ok(mut inst) = inst else {
		st.class("valid-but-init-err");
		return Ok(());
	};
	st.class("accepted");
	let r = engine::catch(|| {
		for cd in &candles {
			let r = inst.next(&cd.candle());
			std::hint::black_box(&r);
		}
	});
	if let Err(p) = r {
		return Err(Failure::new(format!("C10:{}:next-{}", c.name, p.sig()), format!("{}: accepted, then panicked on a valid candle stream at {}: {}", desc(), p.loc, p.msg)));
	}
	st.nontrivial_bulk(1);
	st.sample(&c.name, || serde_json::to_value(c).unwrap());
	Ok(())
}

fn fnum(x: f64) -> Option<Value> {
	serde_json::Number::from_f64(x).map(Value::Number)
}

fn ma_values() -> Vec<Value> {
	let mut v = Vec::new();
	let lens: Vec<u64> = if pmax() <= 255 { vec![0, 1, 2, 3, 126, 127, 128, 253, 254, 255] } else { vec![0, 1, 2, 3, 127, 128, 254, 255, 256, 1000, pmax() - 1, pmax()] };
	for k in cfggen::MA_JSON {
		for &l in &lens {
			v.push(json!({ k: l }));
		}
	}
	v
}

/// every field of every indicator through its boundary values, the other fields at their
/// defaults (variant 0) or at generated valid values (variant > 0)
fn indicator_field_cases(tier: Tier, seed: u64, part: usize, parts: usize) -> Box<dyn Iterator<Item = ICase>> {
	let mut out = Vec::new();
	let variants = tier.pick(2u64, 6);
	for (i, k) in dyni::kinds().into_iter().enumerate() {
		if i % parts != part {
			continue;
		}
		for variant in 0..variants {
			let base = if variant == 0 {
				(k.default)().to_json()
			} else {
				let words: Vec<u16> = (0..24).map(|j| (engine::mix(seed ^ (i as u64) << 32 ^ variant << 48, j) & 0xffff) as u16).collect();
				let mut ch = cfggen::Chooser::new(&words);
				ch.wide = true;
				ch.price_sources = false;
				cfggen::build(k.name, &mut ch)
			};
			let Value::Object(map) = &base else { continue };
			out.push(ICase { name: k.name.into(), cfg: base.clone(), sets: vec![] });
			for (key, val) in map {
				let mut extra: Vec<ICase> = Vec::new();
				let mut with = |v: Value| {
					let mut m = map.clone();
					m.insert(key.clone(), v);
					extra.push(ICase { name: k.name.into(), cfg: Value::Object(m), sets: vec![] });
				};
				let mut via_set: Vec<ICase> = Vec::new();
				match val {
					Value::Number(n) if n.is_u64() => {
						for p in all_periods() {
							with(json!(p));
						}
					}
					Value::Number(_) => {
						for &f in &FLOAT_BOUNDARY {
							match fnum(f) {
								Some(v) => with(v),
								None => via_set.push(ICase { name: k.name.into(), cfg: base.clone(), sets: vec![(key.clone(), format!("{f}"))] }),
							}
						}
					}
					Value::Bool(_) => {
						with(json!(true));
						with(json!(false));
					}
					Value::String(_) => {
						for s in cfggen::SRC_JSON {
							with(json!(s));
						}
					}
					Value::Object(_) => {
						for v in ma_values() {
							with(v);
						}
					}
					_ => {}
				}
				out.extend(extra);
				out.extend(via_set);
			}
		}
	}
	Box::new(out.into_iter())
}

/// generated configurations (valid by construction, wide ranges, all sources) on generated streams
#[derive(Serialize, Deserialize, Clone, Debug)]
pub struct IStreamCase {
	pub cfg: cfggen::CfgCase,
	pub s: crate::gen::CandleStream,
}

pub fn run_indicator_stream(c: &IStreamCase, st: &mut Stats) -> CaseResult {
	let cfg = cfggen::instantiate(&c.cfg).map_err(|e| Failure::new("C10:generator", format!("{}: {e}", c.cfg.name)))?;
	let first = c.s.cs[0].candle();
	let desc = || format!("{} {}", c.cfg.name, cfg.to_json());
	let valid = cfg.validate();
	let inst = engine::catch(|| cfg.init(&first)).map_err(|p| Failure::new(format!("C10:init-{}", p.sig()), format!("{}: init panicked at {}: {}", desc(), p.loc, p.msg)))?;
	ensure!(valid, "C10:generator", "{}: generated configuration does not validate", desc());
	let mut inst = inst.map_err(|e| Failure::new(format!("C10:{}:valid-init-err", c.cfg.name), format!("{}: validate() is true but init failed: {e:?}", desc())))?;
	let r = engine::catch(|| {
		for cd in &c.s.cs {
			std::hint::black_box(inst.next(&cd.candle()));
		}
	});
	if let Err(p) = r {
		return Err(Failure::new(format!("C10:{}:next-{}", c.cfg.name, p.sig()), format!("{}: panicked on a valid candle stream at {}: {}", desc(), p.loc, p.msg)));
	}
	let flat = c.s.cs.windows(3).any(|w| w[0].c == w[1].c && w[1].c == w[2].c);
	if flat {
		st.nontrivial(engine::fnv(format!("{:?}", c).as_bytes()));
	}
	st.sample(&c.cfg.name, || serde_json::to_value(&c.cfg).unwrap());
	Ok(())
}

/// the same oracle on long one-sided trends (counters of peaks, runs and "bars since" keep counting)
fn run_indicator_trend(c: &IStreamCase, st: &mut Stats) -> CaseResult {
	let mut inner = Stats::default();
	run_indicator_stream(c, &mut inner)?;
	st.count("trend_steps", c.s.cs.len() as u64);
	if c.s.cs.len() >= 600 {
		st.nontrivial(engine::fnv(format!("{:?}{}{:?}", c.cfg, c.s.cs.len(), &c.s.cs[..8]).as_bytes()));
		st.class("trend>=600 bars");
	} else {
		st.class("trend<600 bars");
	}
	st.sample(&format!("trend/{}", c.cfg.name), || json!({"indicator": c.cfg.name, "config": c.cfg.cfg, "stream_len": c.s.cs.len(), "first": c.s.cs[0], "last": c.s.cs[c.s.cs.len() - 1]}));
	Ok(())
}

// ---------------------------------------------------------------------------------------
// strings

#[derive(Serialize, Deserialize, Clone, Debug)]
pub struct StrCase {
	pub s: String,
	pub indicator: u8,
	pub key: u8,
}

pub fn run_string(c: &StrCase, st: &mut Stats) -> CaseResult {
	let s = c.s.clone();
	engine::catch(|| s.parse::<Source>().is_ok()).map_err(|p| Failure::new(format!("C10:source-parse-{}", p.sig()), format!("Source::from_str({:?}) panicked: {}", c.s, p.msg)))?;
	engine::catch(|| s.parse::<MA>().is_ok()).map_err(|p| Failure::new(format!("C10:ma-parse-{}", p.sig()), format!("MA::from_str({:?}) panicked: {}", c.s, p.msg)))?;
	let kinds = dyni::kinds();
	let k = &kinds[c.indicator as usize % kinds.len()];
	let mut cfg = (k.default)();
	let keys: Vec<String> = match cfg.to_json() {
		Value::Object(m) => m.keys().cloned().collect(),
		_ => vec![],
	};
	let key = if keys.is_empty() || c.key == 255 { c.s.clone() } else { keys[c.key as usize % keys.len()].clone() };
	let r = engine::catch(|| cfg.set(&key, s.clone())).map_err(|p| Failure::new(format!("C10:set-{}", p.sig()), format!("{}::set({:?}, {:?}) panicked at {}: {}", k.name, key, c.s, p.loc, p.msg)))?;
	st.class(if r.is_ok() { "set-ok" } else { "set-err" });
	st.nontrivial(engine::fnv(format!("{:?}", c).as_bytes()));
	st.sample(if r.is_ok() { "string/set-ok" } else { "string/set-err" }, || serde_json::to_value(c).unwrap());
	Ok(())
}

fn string_strategy() -> impl Strategy<Value = StrCase> {
	let tokens = vec![
		"close", "open", "high", "low", "hl2", "tp", "hlc3", "volume", "volumed_price", "sma-5", "ema-255", "wsma-0", "hma-1", "lin_reg-3", "linreg-3", "vidya-254", "swma-255", "true", "false", "0", "1", "254", "255", "256", "-1", "+5", "007", "1e3", "0.5", "NaN", "inf", "-inf", "nan", "1e400", "", " ", "-", "--", "sma-", "-5", "sma-5-5", "1.0.0", "0x10", "١٢",
	];
	let tok = proptest::sample::select(tokens).prop_map(|s| s.to_string());
	let tok2 = tok.clone();
	let s = prop_oneof![4 => tok.clone(), 2 => (tok.clone(), tok, any::<bool>()).prop_map(|(a, b, sp)| if sp { format!("{a} {b}") } else { format!("{a}{b}") }), 2 => ".{0,24}", 1 => "[-+0-9.eE]{0,12}",
		// long texts, mostly of multi-byte characters, alone and behind a token: anything that cuts, pads or echoes
		// the rejected value by byte positions meets a character boundary somewhere (seed S158)
		1 => "\\PC{25,300}",
		1 => (tok2.clone(), "[é€😀\u{301}a-c0-9 ]{20,200}").prop_map(|(a, b)| format!("{a}{b}")),
		1 => (0usize..4, 1usize..140, tok2).prop_map(|(c, n, a)| format!("{a}{}", ["é", "€", "😀", "a\u{301}"][c].repeat(n)))];
	(s, any::<u8>(), prop_oneof![4 => 0u8..16, 1 => Just(255u8)]).prop_map(|(s, indicator, key)| StrCase { s, indicator, key })
}

pub fn def(tier: Tier) -> PropertyDef {
	let mut checks: Vec<Box<dyn SubCheck>> = Vec::new();
	let parts = 8usize;
	for part in 0..parts {
		checks.push(enumerate(&format!("method_lengths_{part}"), move |_, _| method_len_cases(part, parts), run_method));
		checks.push(enumerate(&format!("method_pairs_{part}"), move |tier, seed| pair_cases(tier, seed, part, parts), run_method));
	}
	let iparts = 16usize;
	for part in 0..iparts {
		checks.push(enumerate(&format!("indicator_fields_{part:02}"), move |tier, seed| indicator_field_cases(tier, seed, part, iparts), run_indicator));
	}
	for name in cfggen::NAMES {
		let strat = (cfggen::config_strategy(name, cfggen::GenOpts { wide: true, price_sources: false, nonneg_ma: false }), crate::gen::candle_stream(1, tier.pick(300, 900))).prop_map(|(cfg, s)| IStreamCase { cfg, s });
		checks.push(pt(&format!("stream_{name}"), tier.pick(600, 20000), strat, run_indicator_stream));
	}
	for name in cfggen::NAMES {
		let strat = (cfggen::config_strategy(name, cfggen::GenOpts { wide: false, price_sources: false, nonneg_ma: false }), crate::gen::trend_candle_stream(tier.pick(3000, 30000))).prop_map(|(cfg, s)| IStreamCase { cfg, s });
		checks.push(pt(&format!("trend_{name}"), tier.pick(240, 3000), strat, run_indicator_trend));
	}
	checks.push(pt("strings", tier.pick(80000, 3000000), string_strategy(), run_string));
	let _ = fail_unused;
	checks.extend(crate::fuzz_entry::corpus_checks("C10"));
	PropertyDef {
		id: "C10",
		level: "exploration",
		rule: "Exhaustive: every value 0..=255 of PeriodType for each of the 32 single-length constructors and the 15 MA kinds (through MA::init), special construction values (NaN, +-inf, ...), Conv weight vectors of length {0,1,2,3,253..256,300} with special fills, Renko brick sizes from the float boundary set x 8 sources, CollapseTimeframe periods {0,1,2,3,255,256,MAX-1,MAX}; all 65 536 pairs for TSI and the three reversal detectors in the thorough tier (quick: 25x25 boundary grid + 500 seeded pairs); every field of every indicator configuration through all 256 period values / the float boundary set (non-finite through set()) / both booleans / all sources / 15 MA kinds x boundary lengths, with the other fields at their defaults and at generated valid values; proptest: generated valid configurations (wide ranges, all sources) on generated valid candle streams and on long one-sided trend streams with a zig-zag (up to 3000 bars quick / 30000 thorough), and strings against Source/MA parsing and set(). All under catch_unwind with debug-assertions and overflow-checks on. Oracle: no panic; documented-too-small => Err; !validate() => init is Err; every accepted instance survives a valid stream with flat, high==low and zero-volume stretches. Non-trivial = each enumerated parameter tuple that was decided (rejected as required, or accepted and survived), generated streams with a flat stretch, trend streams of at least 600 bars, distinct strings.",
		assumptions: vec![
			"harness build profile: opt-level 3 with debug-assertions and overflow-checks ON (the repository's own tests run with them on)".into(),
			"configurations not representable in the field types (e.g. 256 for u8) are outside the quantifier".into(),
		],
		exhaustive: false,
		checks,
	}
}

#[allow(dead_code)]
fn fail_unused() -> CaseResult {
	fail!("unused", "unused")
}
