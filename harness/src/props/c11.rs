//! C11 — indicator interface contract: result shape, dynamic dispatch and string setters.

use crate::cfggen::{self, CfgCase, GenOpts};
use crate::dyni;
use crate::engine::{self, enumerate, pt, CaseResult, Failure, PropertyDef, Stats, SubCheck, Tier};
use crate::gen::{self, CandleStream};
use crate::props::c18::{ma_oracle, source_oracle};
use crate::{ensure, fail};
use proptest::prelude::*;
use serde::{Deserialize, Serialize};
use serde_json::Value;
use yata::core::{Action, Candle, IndicatorResult, PeriodType, ValueType};

pub fn result_bits(r: &IndicatorResult) -> Vec<u64> {
	let mut v = vec![r.values_length() as u64, r.signals_length() as u64];
	for x in r.values() {
		v.push((*x as f64).to_bits());
	}
	for a in r.signals() {
		v.push(match a {
			Action::None => 1 << 20,
			Action::Buy(k) => 2 << 20 | *k as u64,
			Action::Sell(k) => 3 << 20 | *k as u64,
		});
	}
	v
}

/// public, settable parameter names of an indicator (all config fields are `pub` except Example's)
pub fn public_keys(name: &str, json: &Value) -> Vec<String> {
	if name == "Example" {
		return vec!["price".into()];
	}
	match json {
		Value::Object(m) => m.keys().cloned().collect(),
		_ => vec![],
	}
}

/// independent parse of `text` for the kind of field that currently holds `current`
fn parse_for(key: &str, current: &Value, text: &str) -> Option<Value> {
	match current {
		Value::Number(n) if n.is_u64() => {
			if key == "conseq_peaks" {
				text.parse::<u8>().ok().map(|v| serde_json::json!(v))
			} else {
				text.parse::<PeriodType>().ok().map(|v| serde_json::json!(v))
			}
		}
		Value::Number(_) => text.parse::<ValueType>().ok().map(|v| serde_json::to_value(v).unwrap()),
		// a non-finite float field serializes as null
		Value::Null => text.parse::<ValueType>().ok().map(|v| serde_json::to_value(v).unwrap()),
		Value::Bool(_) => text.parse::<bool>().ok().map(Value::Bool),
		Value::String(_) => source_oracle(text).map(|s| serde_json::to_value(s).unwrap()),
		Value::Object(_) => ma_oracle(text).map(|m| serde_json::to_value(m).unwrap()),
		_ => None,
	}
}

#[derive(Serialize, Deserialize, Clone, Debug)]
pub struct SetCase {
	pub cfg: CfgCase,
	/// (name, text) pairs applied in order
	pub sets: Vec<(String, String)>,
}

fn run_set(c: &SetCase, st: &mut Stats) -> CaseResult {
	let mut cfg = cfggen::instantiate(&c.cfg).map_err(|e| Failure::new("C11:generator", format!("{}: {e}", c.cfg.name)))?;
	let mut dy = cfg.as_dyn();
	let name = c.cfg.name.as_str();
	let mut nontrivial = false;
	for (k, text) in &c.sets {
		let before = cfg.to_json();
		let keys = public_keys(name, &before);
		let expected = if keys.iter().any(|x| x == k) { parse_for(k, &before[k.as_str()], text) } else { None };
		let r = cfg.set(k, text.clone());
		let rd = dy.set(k, text.clone());
		let after = cfg.to_json();
		ensure!(r.is_ok() == rd.is_ok(), &format!("C11:{name}:dyn-set"), "{name}: static set({k:?}, {text:?}) is_ok = {} but dyn set is_ok = {}", r.is_ok(), rd.is_ok());
		match expected {
			Some(v) => {
				ensure!(r.is_ok(), &format!("C11:{name}:set-rejects:{k}"), "{name}::set({k:?}, {text:?}) returned {:?} for a public parameter and a parsable value", r.err());
				let mut want = before.clone();
				want[k.as_str()] = v;
				ensure!(after == want, &format!("C11:{name}:set-frame:{k}"), "{name}::set({k:?}, {text:?}): configuration is {after} expected {want}");
				if after != before {
					nontrivial = true;
				}
			}
			None => {
				ensure!(r.is_err(), &format!("C11:{name}:set-accepts:{k_cls}", k_cls = if keys.iter().any(|x| x == k) { k.as_str() } else { "unknown-name" }), "{name}::set({k:?}, {text:?}) returned Ok for an unknown name or unparsable text");
				ensure!(after == before, &format!("C11:{name}:set-err-changes"), "{name}::set({k:?}, {text:?}) failed but changed the configuration: {before} -> {after}");
				if keys.iter().any(|x| x.eq_ignore_ascii_case(k) || x.starts_with(k.as_str()) || k.starts_with(x.as_str())) {
					nontrivial = true;
				}
			}
		}
		// the dynamic configuration went through the same calls: same observable state
		ensure!(dy.validate() == cfg.validate() && dy.size() == cfg.size() && dy.name() == cfg.name(), &format!("C11:{name}:dyn-state"), "{name}: dyn and static configuration disagree after set({k:?}, {text:?})");
	}
	if nontrivial {
		st.nontrivial(engine::fnv(format!("{:?}", c).as_bytes()));
	}
	st.class(name);
	st.sample(name, || serde_json::to_value(c).unwrap());
	Ok(())
}

fn value_texts() -> impl Strategy<Value = String> {
	let fixed = vec![
		"0", "1", "2", "3", "14", "127", "128", "254", "255", "256", "65535", "65536", "-1", "+7", "007", "1.5", "0.25", ".5", "5.", "1e-3", "1E2", "-0.0", "NaN", "nan", "inf", "-inf", "infinity", "true", "false", "True", "close", "Open", " high ", "hl2", "tp", "hlc3", "volume", "volumed_price", "sma-5", "ema-14", "wsma-100", "lin_reg-3", "linreg-3", "vidya-9", "tema-255", "smm-0", "", " ", "abc", "1,5", "0x10", "1_000",
	];
	prop_oneof![6 => proptest::sample::select(fixed).prop_map(|s| s.to_string()), 1 => "[ -~]{0,12}", 1 => (0u32..300).prop_map(|n| n.to_string()), 1 => (-2.0f64..3.0).prop_map(|x| format!("{x}"))]
}

fn all_keys() -> Vec<String> {
	let mut v = std::collections::BTreeSet::new();
	for k in dyni::kinds() {
		if let Value::Object(m) = (k.default)().to_json() {
			v.extend(m.keys().cloned());
		}
	}
	v.into_iter().collect()
}

fn set_strategy(name: &'static str) -> impl Strategy<Value = SetCase> {
	let own: Vec<String> = match (dyni::kind(name).unwrap().default)().to_json() {
		Value::Object(m) => m.keys().cloned().collect(),
		_ => vec![],
	};
	let others = all_keys();
	let own2 = own.clone();
	let key = prop_oneof![
		6 => proptest::sample::select(own.clone()),
		2 => proptest::sample::select(others),
		1 => (proptest::sample::select(own2), 0u8..4).prop_map(|(k, m)| match m {
			0 => k.to_uppercase(),
			1 => format!(" {k}"),
			2 => format!("{k}_"),
			_ => k.chars().rev().collect(),
		}),
		1 => "[a-z_0-9]{0,10}",
	];
	(cfggen::config_strategy(name, GenOpts { wide: true, price_sources: false, nonneg_ma: false }), proptest::collection::vec((key, value_texts()), 1..6)).prop_map(|(cfg, sets)| SetCase { cfg, sets })
}

// ---------------------------------------------------------------------------------------
// shape, names, static vs dyn

#[derive(Serialize, Deserialize, Clone, Debug)]
pub struct ShapeCase {
	pub cfg: CfgCase,
	pub s: CandleStream,
}

pub fn run_shape(c: &ShapeCase, st: &mut Stats) -> CaseResult {
	let cfg = cfggen::instantiate(&c.cfg).map_err(|e| Failure::new("C11:generator", format!("{}: {e}", c.cfg.name)))?;
	let name = c.cfg.name.as_str();
	let cs: Vec<Candle> = c.s.cs.iter().map(|k| k.candle()).collect();
	ensure!(cfg.validate(), "C11:generator", "{name} {}: generated configuration does not validate", cfg.to_json());
	let mut inst = cfg.init(&cs[0]).map_err(|e| Failure::new(format!("C11:{name}:valid-init-err"), format!("{name} {}: init failed: {e:?}", cfg.to_json())))?;
	let dy = cfg.as_dyn();
	let mut dinst = dy.init(&cs[0]).map_err(|e| Failure::new(format!("C11:{name}:dyn-init"), format!("{name}: dyn init failed: {e:?}")))?;
	// names
	ensure!(cfg.name() == name && cfg.const_name() == name && inst.name() == name && dy.name() == name && dinst.name() == name && dinst.config().name() == name, &format!("C11:{name}:name"), "{name}: name() reports {:?}/{:?}/{:?}/{:?}/{:?}", cfg.name(), cfg.const_name(), inst.name(), dy.name(), dinst.name());
	let size = cfg.size();
	ensure!(inst.size() == size && dy.size() == size && dinst.size() == size && dinst.config().size() == size, &format!("C11:{name}:size-agree"), "{name}: size() differs between config, instance and dyn variants");
	ensure!(dy.validate() == cfg.validate() && dinst.config().validate(), &format!("C11:{name}:dyn-validate"), "{name}: dyn validate differs");
	// batch through the dyn config on the whole stream (fresh instances)
	let d_over = dy.over(&cs).map_err(|e| Failure::new(format!("C11:{name}:dyn-over"), format!("{e:?}")))?;
	ensure!(d_over.len() == cs.len(), &format!("C11:{name}:dyn-over-len"), "{name}: dyn over returned {} results for {} candles", d_over.len(), cs.len());
	for (t, cd) in cs.iter().enumerate() {
		let r = inst.next(cd);
		let rd = dinst.next(cd);
		ensure!(r.values().len() == size.0 as usize && r.signals().len() == size.1 as usize && r.size() == size && r.values_length() == size.0 && r.signals_length() == size.1, &format!("C11:{name}:shape"), "{name} step {t}: result carries {} values and {} signals, size() announces {:?}", r.values().len(), r.signals().len(), size);
		for i in 0..size.0 as usize {
			ensure!((r.value(i) as f64).to_bits() == (r.values()[i] as f64).to_bits(), &format!("C11:{name}:value-accessor"), "{name}: value({i}) != values()[{i}]");
		}
		for i in 0..size.1 as usize {
			ensure!(r.signal(i) == r.signals()[i], &format!("C11:{name}:signal-accessor"), "{name}: signal({i}) != signals()[{i}]");
		}
		ensure!(result_bits(&r) == result_bits(&rd), &format!("C11:{name}:dyn-next"), "{name} step {t}: dyn instance returned {:?}, static instance {:?}", rd, r);
		ensure!(result_bits(&r) == result_bits(&d_over[t]), &format!("C11:{name}:dyn-over"), "{name} step {t}: dyn over returned {:?}, static next {:?}", d_over[t], r);
	}
	// a zero-length stream: static and dyn `over` both return Ok(empty) (the static API says so explicitly)
	let none: Vec<Candle> = Vec::new();
	let e_static = engine::catch(|| cfg.over(&none)).map_err(|p| Failure::new(format!("C11:{name}:over-empty-{}", p.sig()), format!("{name}: static over() on no candles panicked at {}: {}", p.loc, p.msg)))?;
	let e_dyn = engine::catch(|| dy.over(&none)).map_err(|p| Failure::new(format!("C11:{name}:dyn-over-empty-{}", p.sig()), format!("{name}: dyn over() on no candles panicked at {}: {}", p.loc, p.msg)))?;
	ensure!(matches!(&e_static, Ok(v) if v.is_empty()) && matches!(&e_dyn, Ok(v) if v.is_empty()), &format!("C11:{name}:over-empty"), "{name}: over() on no candles: static {:?}, dyn {:?}", e_static.as_ref().map(|v| v.len()), e_dyn.as_ref().map(|v| v.len()));
	// dyn instance `over` on a twin
	let mut twin = dy.init(&cs[0]).map_err(|e| Failure::new(format!("C11:{name}:dyn-init"), format!("{e:?}")))?;
	let half = cs.len() / 2;
	ensure!(twin.over(&none).is_empty(), &format!("C11:{name}:dyn-instance-over-empty"), "{name}: dyn instance over() on no candles returned results");
	let a = twin.over(&cs[..half].to_vec());
	let b = twin.over(&cs[half..].to_vec());
	ensure!(a.len() + b.len() == cs.len() && a.iter().chain(b.iter()).zip(d_over.iter()).all(|(x, y)| result_bits(x) == result_bits(y)), &format!("C11:{name}:dyn-instance-over"), "{name}: dyn instance over() in two chunks differs from the stream");
	if cs.len() > 3 {
		st.nontrivial(engine::fnv(format!("{:?}{:?}", c.cfg, &c.s.cs[..c.s.cs.len().min(10)]).as_bytes()));
	}
	st.count("steps", cs.len() as u64);
	st.class(name);
	st.sample(name, || serde_json::to_value(&c.cfg).unwrap());
	Ok(())
}

fn run_defaults(_: &u8, st: &mut Stats) -> CaseResult {
	let candles = crate::props::c10::canned_candles(50);
	for k in dyni::kinds() {
		let cfg = (k.default)();
		ensure!(cfg.validate(), &format!("C11:{}:default-invalid", k.name), "{}: the default configuration does not validate", k.name);
		let r = cfg.init(&candles[0].candle());
		ensure!(r.is_ok(), &format!("C11:{}:default-init", k.name), "{}: the default configuration does not initialise: {:?}", k.name, r.err());
		let mut inst = r.unwrap();
		for c in &candles {
			let res = inst.next(&c.candle());
			ensure!(res.size() == cfg.size(), &format!("C11:{}:shape", k.name), "{}: default instance result size", k.name);
		}
		ensure!(cfg.name() == k.name, &format!("C11:{}:name", k.name), "{}: NAME is {:?}", k.name, cfg.name());
		// every public parameter can be set to its own current value
		let json = cfg.to_json();
		let mut c2 = cfg.clone_box();
		for key in public_keys(k.name, &json) {
			let text = match &json[key.as_str()] {
				Value::Number(n) => n.to_string(),
				Value::Bool(b) => b.to_string(),
				Value::String(s) => s.clone(),
				Value::Object(m) => {
					let (kind, len) = m.iter().next().unwrap();
					format!("{}-{}", if kind == "lin_reg" { "linreg" } else { kind.as_str() }, len)
				}
				_ => continue,
			};
			let r = c2.set(&key, text.clone());
			ensure!(r.is_ok(), &format!("C11:{}:set-rejects:{}", k.name, key), "{}::set({:?}, {:?}) (its own default value) returned {:?}", k.name, key, text, r.err());
			ensure!(c2.to_json() == json, &format!("C11:{}:set-frame:{}", k.name, key), "{}::set({:?}, {:?}) changed the configuration to {}", k.name, key, text, c2.to_json());
			st.nontrivial_bulk(1);
		}
		st.nontrivial_bulk(1);
	}
	st.sample("defaults", || serde_json::json!("all 37 default configurations: validate, init, NAME, every public parameter set to its own value"));
	Ok(())
}

#[derive(Serialize, Deserialize, Clone, Debug)]
pub struct ResCase {
	pub values: Vec<f64>,
	pub signals: Vec<i16>,
}

fn run_result_new(c: &ResCase, st: &mut Stats) -> CaseResult {
	let vals: Vec<ValueType> = c.values.iter().map(|x| *x as ValueType).collect();
	let sigs: Vec<Action> = c.signals.iter().map(|&s| if s == i16::MIN { Action::None } else if s >= 0 { Action::Buy((s % 256) as u8) } else { Action::Sell((-(s as i32) % 256) as u8) }).collect();
	let r = IndicatorResult::new(&vals, &sigs);
	let (nv, ns) = (vals.len().min(IndicatorResult::SIZE), sigs.len().min(IndicatorResult::SIZE));
	ensure!(r.size() == (nv as u8, ns as u8), "C11:result-new-size", "IndicatorResult::new with {} values / {} signals has size {:?}", vals.len(), sigs.len(), r.size());
	ensure!(r.values().iter().zip(vals.iter()).all(|(a, b)| (*a as f64).to_bits() == (*b as f64).to_bits()) && r.values().len() == nv, "C11:result-new-values", "values are not the first {nv} given");
	ensure!(r.signals().iter().zip(sigs.iter()).all(|(a, b)| result_sig(a) == result_sig(b)) && r.signals().len() == ns, "C11:result-new-signals", "signals are not the first {ns} given");
	let j = serde_json::to_string(&r);
	if let (Ok(j), true) = (j, vals.iter().all(|x| x.is_finite())) {
		let back: IndicatorResult = serde_json::from_str(&j).map_err(|e| Failure::new("C11:result-serde", format!("{j}: {e}")))?;
		ensure!(result_bits(&back) == result_bits(&r), "C11:result-serde", "IndicatorResult does not survive serde: {j}");
	}
	st.nontrivial(engine::fnv(format!("{:?}", c).as_bytes()));
	st.sample("IndicatorResult::new", || serde_json::to_value(c).unwrap());
	Ok(())
}

fn result_sig(a: &Action) -> u32 {
	match a {
		Action::None => 1 << 20,
		Action::Buy(k) => 2 << 20 | *k as u32,
		Action::Sell(k) => 3 << 20 | *k as u32,
	}
}

pub fn def(tier: Tier) -> PropertyDef {
	let mut checks: Vec<Box<dyn SubCheck>> = Vec::new();
	checks.push(enumerate("defaults", |_, _| Box::new(std::iter::once(0u8)), run_defaults));
	for name in cfggen::NAMES {
		checks.push(pt(&format!("set_{name}"), tier.pick(6000, 300000), set_strategy(name), run_set));
		let strat = (cfggen::config_strategy(name, GenOpts { wide: false, price_sources: true, nonneg_ma: false }), gen::candle_stream(1, tier.pick(120, 400))).prop_map(|(cfg, s)| ShapeCase { cfg, s });
		checks.push(pt(&format!("shape_dyn_{name}"), tier.pick(800, 30000), strat, run_shape));
	}
	checks.push(pt("result_new", tier.pick(5000, 500000), (proptest::collection::vec(-1e6f64..1e6, 0..8), proptest::collection::vec(prop_oneof![Just(i16::MIN), -255i16..=255], 0..8)).prop_map(|(values, signals)| ResCase { values, signals }), run_result_new));
	let _ = fail_unused;
	checks.extend(crate::fuzz_entry::corpus_checks("C11"));
	PropertyDef {
		id: "C11",
		level: "exploration",
		rule: "All 37 indicators. set(): generated valid configurations, then 1..5 set(name, text) calls with names = own keys, keys of other indicators, case/space/suffix variants and random identifiers, texts = typed valid values, boundary values, near misses and garbage; oracle = frame condition on the serialized configuration (exactly the named key changes to the independently parsed value; otherwise Err and unchanged), static and Box<dyn IndicatorConfigDyn> in lock-step. Shape/names/dyn: generated configurations x generated candle streams, every step: values()/signals() lengths = size(), accessor agreement, name() of config/instance/dyn = NAME = frozen table, dyn init/next/over bit-identical to static. Defaults validate, initialise and accept their own values through set. IndicatorResult::new truncation model on arbitrary slices. Non-trivial = a set that changed the configuration or a rejected near-miss name; a stream of > 3 candles; distinct by hash.",
		assumptions: vec!["public parameters = serialized config fields (all `pub`); Example's only public parameter is `price`".into(), "non-finite floats serialize as JSON null on both sides of the frame comparison".into()],
		exhaustive: false,
		checks,
	}
}

#[allow(dead_code)]
fn fail_unused() -> CaseResult {
	fail!("unused", "unused")
}
