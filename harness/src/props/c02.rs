//! C02 — sliding-window numeric methods equal their from-scratch definition.

use crate::approx::{allow, eps, quot_allow, Mag};
use crate::engine::{self, pt, CaseResult, Failure, PropertyDef, Stats, SubCheck, Tier};
use crate::gen::{self, CandleStream, Domain, ValStream};
use crate::refm::{self, win};
use crate::{ensure, fail};
use proptest::prelude::*;
use serde::{Deserialize, Serialize};
use yata::core::{Method, PeriodType, ValueType};
use yata::methods::*;

pub enum Exp {
	/// expected value, allowance
	Val(f64, f64),
	/// compare squares: expected variance, allowance on the variance
	Sq(f64, f64),
	Exempt,
}

pub type Boxed = Box<dyn FnMut(ValueType) -> ValueType>;

pub struct Spec {
	pub name: &'static str,
	pub min_n: u32,
	pub dom: Domain,
	pub make: fn(PeriodType, ValueType) -> Result<Boxed, yata::core::Error>,
	/// auxiliary series computed once per case (e.g. the inner stage of a composed method)
	pub prep: fn(&[f64], f64, usize) -> Vec<f64>,
	/// expectation at step t given (xs, init, t, n, M_t, aux)
	pub expect: fn(&[f64], f64, usize, usize, f64, &[f64]) -> Exp,
}

fn no_prep(_: &[f64], _: f64, _: usize) -> Vec<f64> {
	Vec::new()
}

macro_rules! mk {
	($ty:ty) => {
		|n, init| {
			let mut m = <$ty>::new(n, &init)?;
			Ok(Box::new(move |x: ValueType| m.next(&x)) as Boxed)
		}
	};
}

fn hma_lens(n: usize) -> (usize, usize) {
	(n / 2, (n as f64).sqrt() as usize)
}

pub fn specs() -> Vec<Spec> {
	vec![
		Spec { name: "SMA", min_n: 1, dom: Domain::Any, make: mk!(SMA), prep: no_prep, expect: |xs, i, t, n, m, _| Exp::Val(win::mean(&refm::window(xs, i, t, n)), allow(n, t, m, 1.0)) },
		Spec { name: "WMA", min_n: 1, dom: Domain::Any, make: mk!(WMA), prep: no_prep, expect: |xs, i, t, n, m, _| Exp::Val(win::wma(&refm::window(xs, i, t, n)), allow(n, t, m, 1.0)) },
		Spec { name: "SWMA", min_n: 1, dom: Domain::Any, make: mk!(SWMA), prep: no_prep, expect: |xs, i, t, n, m, _| Exp::Val(win::swma(&refm::window(xs, i, t, n)), allow(n, t, m, 1.0)) },
		Spec {
			name: "TRIMA",
			min_n: 1,
			dom: Domain::Any,
			make: mk!(TRIMA),
			prep: |xs, i, n| (0..xs.len()).map(|t| win::mean(&refm::window(xs, i, t, n))).collect(),
			expect: |_, i, t, n, m, aux| Exp::Val(win::mean(&refm::window(aux, i, t, n)), allow(n, t, m, 2.0)),
		},
		Spec {
			name: "HMA",
			min_n: 2,
			dom: Domain::Any,
			make: mk!(HMA),
			prep: |xs, i, n| {
				let (h, _) = hma_lens(n);
				(0..xs.len()).map(|t| 2.0 * win::wma(&refm::window(xs, i, t, h)) - win::wma(&refm::window(xs, i, t, n))).collect()
			},
			expect: |_, i, t, n, m, aux| {
				let (_, s) = hma_lens(n);
				Exp::Val(win::wma(&refm::window(aux, i, t, s)), allow(n, t, m, 6.0))
			},
		},
		Spec { name: "LinReg", min_n: 2, dom: Domain::Any, make: mk!(LinReg), prep: no_prep, expect: |xs, i, t, n, m, _| Exp::Val(win::linreg(&refm::window(xs, i, t, n)), allow(n, t, m, 4.0)) },
		Spec { name: "Integral", min_n: 1, dom: Domain::Any, make: mk!(Integral), prep: no_prep, expect: |xs, i, t, n, m, _| Exp::Val(win::sum(&refm::window(xs, i, t, n)), allow(n, t, m, n as f64)) },
		Spec {
			name: "Derivative",
			min_n: 1,
			dom: Domain::Any,
			make: mk!(Derivative),
			prep: no_prep,
			expect: |xs, i, t, n, m, _| Exp::Val((xs[t] - refm::at(xs, i, t, n)) / n as f64, allow(n, 0, m, 1.0) / n as f64),
		},
		Spec { name: "Momentum", min_n: 1, dom: Domain::Any, make: mk!(Momentum), prep: no_prep, expect: |xs, i, t, n, m, _| Exp::Val(xs[t] - refm::at(xs, i, t, n), 4.0 * eps() * m) },
		Spec {
			name: "RateOfChange",
			min_n: 1,
			dom: Domain::Positive,
			make: mk!(RateOfChange),
			prep: no_prep,
			expect: |xs, i, t, n, _, _| {
				let p = refm::at(xs, i, t, n);
				let r = (xs[t] - p) / p;
				Exp::Val(r, 8.0 * eps() * (r.abs() + 1.0))
			},
		},
		Spec { name: "Past", min_n: 1, dom: Domain::Any, make: mk!(Past<ValueType>), prep: no_prep, expect: |xs, i, t, n, _, _| Exp::Val(refm::at(xs, i, t, n), 0.0) },
		Spec { name: "StDev", min_n: 2, dom: Domain::Any, make: mk!(StDev), prep: no_prep, expect: |xs, i, t, n, m, _| Exp::Sq(win::var_sample(&refm::window(xs, i, t, n)), allow(n, t, m * m, 1.0)) },
		Spec { name: "MeanAbsDev", min_n: 1, dom: Domain::Any, make: mk!(MeanAbsDev), prep: no_prep, expect: |xs, i, t, n, m, _| Exp::Val(win::mean_abs_dev(&refm::window(xs, i, t, n)), allow(n, t, m, 2.0)) },
		Spec { name: "MedianAbsDev", min_n: 2, dom: Domain::Any, make: mk!(MedianAbsDev), prep: no_prep, expect: |xs, i, t, n, m, _| Exp::Val(win::median_abs_dev(&refm::window(xs, i, t, n)), allow(n, 0, m, 2.0)) },
		Spec {
			name: "CCI",
			min_n: 1,
			dom: Domain::Any,
			make: mk!(CCI),
			prep: no_prep,
			expect: |xs, i, t, n, m, _| {
				let w = refm::window(xs, i, t, n);
				let mad = win::mean_abs_dev(&w);
				let a = xs[t] - win::mean(&w);
				let ea = allow(n, t, m, 1.0);
				let eb = allow(n, t, m, 2.0);
				match quot_allow(a, mad, ea, eb) {
					Some(tol) => Exp::Val(a / mad, tol),
					None => Exp::Exempt,
				}
			},
		},
		Spec {
			name: "LinearVolatility",
			min_n: 1,
			dom: Domain::Any,
			make: mk!(LinearVolatility),
			prep: no_prep,
			expect: |xs, i, t, n, m, _| {
				let mut s = 0.0;
				for age in 0..n {
					if age <= t {
						let a = xs[t - age];
						let b = refm::at(xs, i, t - age, 1);
						s += (a - b).abs();
					}
				}
				Exp::Val(s, allow(n, t, 2.0 * m, n as f64))
			},
		},
	]
}

fn ctor_err(name: &str, n: u32, e: yata::core::Error) -> Failure {
	Failure::new(format!("C02:{name}:ctor"), format!("{name}::new({n}) failed: {e:?}"))
}

pub fn run_spec(spec: &Spec, c: &ValStream, st: &mut Stats) -> CaseResult {
	let n = c.n as usize;
	let init = gen::vt(c.init);
	let xs: Vec<f64> = c.xs.iter().map(|&x| gen::vt(x)).collect();
	let mut m = (spec.make)(c.n as PeriodType, init as ValueType).map_err(|e| ctor_err(spec.name, c.n, e))?;
	let aux = (spec.prep)(&xs, init, n);
	let mut mag = Mag::new(init);
	let mut distinct = std::collections::HashSet::new();
	distinct.insert(init.to_bits());
	for (t, &x) in xs.iter().enumerate() {
		let mt = mag.add(x);
		distinct.insert(x.to_bits());
		let got = m(x as ValueType) as f64;
		match (spec.expect)(&xs, init, t, n, mt, &aux) {
			Exp::Val(e, tol) => {
				let d = (got - e).abs();
				if tol > 0.0 {
					st.ratio(d / tol);
				}
				ensure!(d <= tol, &format!("C02:{}:value", spec.name), "{}({}) step {}: got {:e} expected {:e} (|diff| {:e} > allowance {:e}); M_t = {:e}", spec.name, n, t, got, e, d, tol, mt);
			}
			Exp::Sq(var, tol) => {
				ensure!(got >= 0.0, &format!("C02:{}:negative", spec.name), "{}({}) step {}: negative output {:e}", spec.name, n, t, got);
				let d = (got * got - var).abs();
				st.ratio(d / tol);
				ensure!(d <= tol, &format!("C02:{}:value", spec.name), "{}({}) step {}: got {:e} (square {:e}) expected variance {:e} (|diff| {:e} > allowance {:e})", spec.name, n, t, got, got * got, var, d, tol);
			}
			Exp::Exempt => st.count("exempt_steps", 1),
		}
	}
	st.count("steps", xs.len() as u64);
	if xs.len() > 2 * n && distinct.len() >= 3 {
		st.nontrivial(engine::mix(c.n as u64, engine::fnv_f64s(&xs) ^ init.to_bits()));
	}
	st.set_add("lengths", c.n as u64);
	st.class(if c.init.to_bits() == c.xs[0].to_bits() { "init=x0" } else { "init!=x0" });
	st.class(match n {
		1..=5 => "n:1-5",
		6..=126 => "n:6-126",
		127..=128 => "n:127-128",
		129..=252 => "n:129-252",
		_ => "n:253-254",
	});
	st.sample(spec.name, || serde_json::to_value(c).unwrap());
	Ok(())
}

// ---------------------------------------------------------------------------------------
// Conv

#[derive(Serialize, Deserialize, Clone, Debug)]
pub struct ConvCase {
	pub weights: Vec<f64>,
	pub s: ValStream,
}

fn conv_strategy(max_len: usize) -> impl Strategy<Value = ConvCase> {
	let wl = prop_oneof![3 => 1usize..=6, 3 => 7usize..=60, 1 => 61usize..=252, 1 => prop_oneof![Just(253usize), Just(254usize)]];
	wl.prop_flat_map(move |len| {
		(
			proptest::collection::vec((1u16..=u16::MAX, any::<u8>()), len),
			-3i32..=3,
			gen::val_stream_n(len as u32, max_len, Domain::Any, true),
		)
	})
	.prop_map(|(raw, exp, s)| {
		let scale = 10f64.powi(exp);
		let mut w: Vec<f64> = raw.iter().map(|&(m, sg)| (m as f64 / 65536.0) * scale * if sg < 48 { -1.0 } else { 1.0 }).collect();
		// keep the filter well-conditioned by construction: |sum w| >= sum|w| / 16
		let sa: f64 = w.iter().map(|x| x.abs()).sum();
		let mut i = 0;
		while w.iter().sum::<f64>().abs() < sa / 16.0 && i < w.len() {
			w[i] = w[i].abs();
			i += 1;
		}
		let w: Vec<f64> = w.into_iter().map(gen::vt).collect();
		ConvCase { weights: w, s }
	})
}

fn run_conv(c: &ConvCase, st: &mut Stats) -> CaseResult {
	let n = c.weights.len();
	let init = gen::vt(c.s.init);
	let xs: Vec<f64> = c.s.xs.iter().map(|&x| gen::vt(x)).collect();
	let w: Vec<ValueType> = c.weights.iter().map(|&x| x as ValueType).collect();
	let mut m = Conv::new(w, &(init as ValueType)).map_err(|e| Failure::new("C02:Conv:ctor", format!("{e:?}")))?;
	let g = win::l1_gain(&c.weights);
	let mut mag = Mag::new(init);
	for (t, &x) in xs.iter().enumerate() {
		let mt = mag.add(x);
		let got = m.next(&(x as ValueType)) as f64;
		let e = win::conv(&refm::window(&xs, init, t, n), &c.weights);
		// no running state: the error does not grow with t
		let tol = allow(n, 0, mt, g);
		st.ratio((got - e).abs() / tol);
		ensure!((got - e).abs() <= tol, "C02:Conv:value", "Conv(len {}) step {}: got {:e} expected {:e} (allowance {:e})", n, t, got, e, tol);
	}
	if xs.len() > n && c.weights.iter().any(|x| *x < 0.0) || xs.len() > 2 * n {
		st.nontrivial(engine::fnv_f64s(&xs) ^ engine::fnv_f64s(&c.weights));
	}
	st.class(if c.weights.iter().any(|x| *x < 0.0) { "signed-weights" } else { "positive-weights" });
	st.sample("Conv", || serde_json::to_value(c).unwrap());
	Ok(())
}

// ---------------------------------------------------------------------------------------
// VWMA

#[derive(Serialize, Deserialize, Clone, Debug)]
pub struct VwmaCase {
	pub n: u32,
	pub init: (f64, f64),
	pub pv: Vec<(f64, f64)>,
}

fn vwma_strategy(max_len: usize) -> impl Strategy<Value = VwmaCase> {
	(gen::length_strategy(1), gen::spec_strategy(8), gen::spec_strategy(8), any::<u8>()).prop_map(move |(n, ps, vs, mode)| {
		let p = gen::build_stream(&ps, n as usize, max_len, Domain::Any);
		// volumes capped so that price*volume stays in range
		let v: Vec<f64> = gen::build_stream(&vs, n as usize, max_len, Domain::NonNegative).into_iter().map(|x| gen::vt(x.min(1e6))).collect();
		let len = p.len().min(v.len());
		let pv: Vec<(f64, f64)> = (0..len).map(|i| (p[i], v[i])).collect();
		let init = if mode % 3 == 0 { (p[len - 1], v[len / 2]) } else { pv[0] };
		VwmaCase { n, init, pv }
	})
}

fn run_vwma(c: &VwmaCase, st: &mut Stats) -> CaseResult {
	let n = c.n as usize;
	let init = (gen::vt(c.init.0), gen::vt(c.init.1));
	let mut m = VWMA::new(c.n as PeriodType, &(init.0 as ValueType, init.1 as ValueType)).map_err(|e| Failure::new("C02:VWMA:ctor", format!("{e:?}")))?;
	let ps: Vec<f64> = c.pv.iter().map(|x| gen::vt(x.0)).collect();
	let vs: Vec<f64> = c.pv.iter().map(|x| gen::vt(x.1)).collect();
	let pvs: Vec<f64> = ps.iter().zip(vs.iter()).map(|(p, v)| p * v).collect();
	let mut mag_pv = Mag::new(init.0 * init.1);
	let mut mag_v = Mag::new(init.1);
	let mut exempt = 0;
	for t in 0..ps.len() {
		let mpv = mag_pv.add(pvs[t]);
		let mv = mag_v.add(vs[t]);
		let got = m.next(&(ps[t] as ValueType, vs[t] as ValueType)) as f64;
		let a: f64 = win::sum(&refm::window(&pvs, init.0 * init.1, t, n));
		let b: f64 = win::sum(&refm::window(&vs, init.1, t, n));
		let ea = allow(n, t, mpv, n as f64);
		let eb = allow(n, t, mv, n as f64);
		match quot_allow(a, b, ea, eb) {
			Some(tol) => {
				st.ratio((got - a / b).abs() / tol);
				ensure!((got - a / b).abs() <= tol, "C02:VWMA:value", "VWMA({}) step {}: got {:e} expected {:e} (allowance {:e})", n, t, got, a / b, tol);
			}
			None => exempt += 1,
		}
	}
	st.count("exempt_steps", exempt);
	st.count("steps", ps.len() as u64);
	if ps.len() > 2 * n && exempt < ps.len() as u64 / 2 {
		st.nontrivial(engine::mix(c.n as u64, engine::fnv_f64s(&ps) ^ engine::fnv_f64s(&vs)));
	}
	st.sample("VWMA", || serde_json::to_value(c).unwrap());
	Ok(())
}

// ---------------------------------------------------------------------------------------
// ADI (windowed)

/// reference clv with its rounding allowance
pub fn clv_ref(c: &gen::C5) -> (f64, f64) {
	if c.h == c.l {
		(0.0, 0.0)
	} else {
		let v = ((c.c - c.l) - (c.h - c.c)) / (c.h - c.l);
		let e = 8.0 * eps() * (c.h.abs() + c.l.abs() + 2.0 * c.c.abs()) / (c.h - c.l) + 4.0 * eps();
		(v, e)
	}
}

fn run_adi(c: &CandleStream, st: &mut Stats) -> CaseResult {
	let n = c.n as usize;
	let first = c.cs[0].candle();
	let mut m = ADI::new(c.n as PeriodType, &first).map_err(|e| Failure::new("C02:ADI:ctor", format!("{e:?}")))?;
	let vals: Vec<(f64, f64)> = c.cs.iter().map(|k| { let (v, e) = clv_ref(k); (v * k.v, e * k.v) }).collect();
	let xs: Vec<f64> = vals.iter().map(|x| x.0).collect();
	let es: Vec<f64> = vals.iter().map(|x| x.1).collect();
	let mut mag = Mag::new(xs[0]);
	// in half of the cases the construction candle is prehistory only and is not fed again
	let skip = (c.cs.len() % 2 == 1 && c.cs.len() > 2) as usize;
	let (seed_x, seed_e) = (xs[0], es[0]);
	let (xs, es) = (xs[skip..].to_vec(), es[skip..].to_vec());
	for t in 0..xs.len() {
		let mt = mag.add(xs[t]);
		let got = m.next(&c.cs[t + skip].candle()) as f64;
		let e: f64 = win::sum(&refm::window(&xs, seed_x, t, n));
		let tol = allow(n, t, mt, n as f64) + win::sum(&refm::window(&es, seed_e, t, n)) + seed_e + es.iter().take(t + 1).sum::<f64>();
		st.ratio((got - e).abs() / tol);
		ensure!((got - e).abs() <= tol, "C02:ADI:value", "ADI({}) step {}: got {:e} expected {:e} (allowance {:e})", n, t, got, e, tol);
	}
	if xs.len() > 2 * n {
		st.nontrivial(engine::mix(c.n as u64, engine::fnv_f64s(&xs)));
	}
	st.count("steps", xs.len() as u64);
	st.sample("ADI", || serde_json::to_value(c).unwrap());
	Ok(())
}

// ---------------------------------------------------------------------------------------
// bounded-exhaustive small scope

/// Every stream of length <= 7 (thorough 9) over a four-letter alphabet with ties, a zero and both signs
/// ({-1, 0, 1, 2}; {1, 2, 4, 8} for the methods that need positive inputs), windows 1..=4, every letter as
/// construction value: exact repeats at lag n, returns to the construction value, windows crossing zero.
fn exhaustive_small(tier: Tier, spec_index: usize) -> Box<dyn Iterator<Item = ValStream>> {
	let spec = &specs()[spec_index];
	let letters = if spec.dom == Domain::Positive { [1.0f64, 2.0, 4.0, 8.0] } else { [-1.0f64, 0.0, 1.0, 2.0] };
	let maxl = tier.pick(7u32, 9);
	let min_n = spec.min_n;
	let mut out = Vec::new();
	for l in 1..=maxl {
		for code in 0..4u64.pow(l) {
			let xs: Vec<f64> = (0..l).map(|k| letters[((code >> (2 * k)) & 3) as usize]).collect();
			for n in 1..=4u32 {
				if n < min_n {
					continue;
				}
				// the first element (the documented usage) and one other letter as construction value
				out.push(ValStream { n, init: xs[0], xs: xs.clone() });
				out.push(ValStream { n, init: letters[((code as usize) + n as usize + 1) % 4], xs: xs.clone() });
			}
		}
	}
	Box::new(out.into_iter())
}

pub fn def(tier: Tier) -> PropertyDef {
	let mut checks: Vec<Box<dyn SubCheck>> = Vec::new();
	let max_len = tier.pick(512usize, 2048);
	let cases = tier.pick(3000u32, 30000);
	for spec in specs() {
		let (min_n, dom, name) = (spec.min_n, spec.dom, spec.name);
		checks.push(pt(name, cases, gen::val_stream(min_n, max_len, dom, true), move |c: &ValStream, st| run_spec(&spec, c, st)));
	}
	for (i, spec) in specs().into_iter().enumerate() {
		let name = spec.name;
		checks.push(crate::engine::enumerate(&format!("exhaustive_small_{name}"), move |tier, _| exhaustive_small(tier, i), move |c: &ValStream, st| run_spec(&spec, c, st)));
	}
	// every length for the cheap single-accumulator kinds in thorough: handled by C15's impulse responses too
	checks.push(pt("Conv", cases, conv_strategy(max_len), run_conv));
	checks.push(pt("VWMA", cases, vwma_strategy(max_len), run_vwma));
	checks.push(pt("ADI", cases, gen::candle_stream(1, max_len), run_adi));
	let _ = fail_unused;
	PropertyDef {
		id: "C02",
		level: "exploration",
		rule: "Bounded-exhaustive (exhaustive_small_*): every stream of length <= 7 (thorough 9) over {-1,0,1,2} ({1,2,4,8} for positive-input methods), windows 1..=4, two construction values, for each of the 16 value-input methods. proptest: segment-built streams (iid, random walks, plateaus, monotone runs, spikes, 10^+-k scale jumps, sign flips, integer lattices, zero runs, alternations, saw-tooth) of up to 512 (thorough 2048) steps, stratified lengths 1..=254 with boundary weight, init = first element or an independent prehistory value; every step incl. warm-up compared two-sidedly with the from-scratch formula on the padded history inside the allowance K*eps*(n+t)*M_t*g of DESIGN 4.2. Non-trivial = stream longer than 2n with >= 3 distinct values (the window was completely replaced at least once); distinct by hash(method, n, init, stream).",
		assumptions: vec![
			"magnitude domain |x| in {0} U [1e-6, 1e9] (DESIGN §3)".into(),
			"allowance constant K = 256; ill-conditioned quotients (CCI with MAD within its allowance of 0, VWMA with volume sum within its allowance of 0) are exempt and counted".into(),
		],
		exhaustive: false,
		checks,
	}
}

#[allow(dead_code)]
fn fail_unused() -> CaseResult {
	fail!("unused", "unused")
}
