//! C18 — candle helpers satisfy their textbook identities; text forms round-trip.

use crate::approx::eps;
use crate::engine::{self, enumerate, pt, CaseResult, PropertyDef, Stats, SubCheck, Tier};
use crate::gen::{self, Fx};
use crate::{ensure, fail};
use proptest::prelude::*;
use serde::{Deserialize, Serialize};
use std::convert::TryFrom;
use yata::core::{Candle, PeriodType, Sequence, Source, ValueType, OHLCV};
use yata::helpers::MA;

pub const SPECIALS: [f64; 11] = [f64::NAN, f64::NEG_INFINITY, -1.0, -0.0, 0.0, 5e-324, 1.0, 2.0, 3.0, 1e300, f64::INFINITY];

fn v(x: f64) -> ValueType {
	x as ValueType
}

/// NaN <=> NaN, otherwise within `ulps` units in the last place
fn close(a: f64, b: f64, ulps: f64) -> bool {
	if a.is_nan() || b.is_nan() {
		return a.is_nan() && b.is_nan();
	}
	if a == b {
		return true;
	}
	let tiny = if cfg!(feature = "value_type_f32") { 1.5e-45 } else { 5e-324 };
	(a - b).abs() <= ulps * eps() * a.abs().max(b.abs()) + ulps * tiny
}

fn eqn(a: f64, b: f64) -> bool {
	(a.is_nan() && b.is_nan()) || a == b
}

pub const SOURCES: [Source; 8] = [Source::Close, Source::Open, Source::High, Source::Low, Source::HL2, Source::TP, Source::Volume, Source::VolumedPrice];

/// all identities on one candle (values already rounded to the crate's value type)
fn check_candle(o: f64, h: f64, l: f64, c: f64, vol: f64, prev_closes: &[f64], st: &mut Stats) -> CaseResult {
	let k = Candle { open: v(o), high: v(h), low: v(l), close: v(c), volume: v(vol) };
	let (o, h, l, c, vol) = (k.open as f64, k.high as f64, k.low as f64, k.close as f64, k.volume as f64);
	let tup = (k.open, k.high, k.low, k.close, k.volume);
	let arr = [k.open, k.high, k.low, k.close, k.volume];
	let rt = |x: f64| gen::vt(x);
	let tp = rt((h + l + c) / 3.0);
	let hl2 = rt((h + l) * 0.5);
	let ohlc4 = rt((h + l + c + o) * 0.25);
	let vp = rt(tp * vol);
	let desc = || format!("candle o={o:e} h={h:e} l={l:e} c={c:e} v={vol:e}");
	ensure!(close(k.tp() as f64, tp, 2.0), "C18:tp", "{}: tp = {:e} expected {:e}", desc(), k.tp(), tp);
	ensure!(close(k.hl2() as f64, hl2, 2.0), "C18:hl2", "{}: hl2 = {:e} expected {:e}", desc(), k.hl2(), hl2);
	ensure!(close(k.ohlc4() as f64, ohlc4, 2.0), "C18:ohlc4", "{}: ohlc4 = {:e} expected {:e}", desc(), k.ohlc4(), ohlc4);
	ensure!(close(k.volumed_price() as f64, vp, 4.0), "C18:volumed_price", "{}: volumed_price = {:e} expected {:e}", desc(), k.volumed_price(), vp);
	for s in SOURCES {
		let e = match s {
			Source::Close => c,
			Source::Open => o,
			Source::High => h,
			Source::Low => l,
			Source::HL2 => hl2,
			Source::TP => tp,
			Source::Volume => vol,
			Source::VolumedPrice => vp,
			_ => unreachable!(),
		};
		ensure!(close(k.source(s) as f64, e, 4.0), &format!("C18:source:{s:?}"), "{}: source({:?}) = {:e} expected {:e}", desc(), s, k.source(s), e);
		ensure!(eqn(tup.source(s) as f64, k.source(s) as f64) && eqn(arr.source(s) as f64, k.source(s) as f64), "C18:source-impls", "{}: tuple/array source({:?}) differ from Candle", desc(), s);
	}
	// clv
	let got = k.clv() as f64;
	if h == l {
		ensure!(got == 0.0, "C18:clv-zero-range", "{}: clv = {:e} on a zero range", desc(), got);
	} else {
		let e = ((c - l) - (h - c)) / (h - l);
		if e.is_nan() || got.is_nan() {
			// NaN must come from non-finite/NaN fields, on both sides
			let special = !(h.is_finite() && l.is_finite() && c.is_finite());
			ensure!(special || (e.is_nan() && got.is_nan()), "C18:clv-nan", "{}: clv = {:e} expected {:e}", desc(), got, e);
		} else if e.is_finite() && got.is_finite() {
			let tol = 8.0 * eps() * (c.abs() + l.abs() + h.abs()) / (h - l).abs() + 8.0 * eps() * e.abs() + 1e-300;
			ensure!((got - e).abs() <= tol, "C18:clv", "{}: clv = {:e} expected {:e} (tol {:e})", desc(), got, e, tol);
		} else {
			// overflow to infinity on one side only can happen for |values| near the type's maximum
			let big = [h, l, c].iter().any(|x| x.abs() > 1e150);
			ensure!(big || got == e, "C18:clv", "{}: clv = {:e} expected {:e}", desc(), got, e);
		}
	}
	ensure!(eqn(tup.clv() as f64, got) && eqn(arr.clv() as f64, got), "C18:clv-impls", "{}: tuple/array clv differ", desc());
	ensure!(k.is_rising() == (c > o) && k.is_falling() == (c < o), "C18:rising-falling", "{}: is_rising/is_falling", desc());
	// single-subtraction true range
	if h >= l {
		for &pc in prev_closes {
			let pc = gen::vt(pc);
			let got = k.tr_close(v(pc)) as f64;
			let e = rt(h - l).max(rt((h - pc).abs())).max(rt((l - pc).abs()));
			ensure!(eqn(got, e), "C18:tr_close", "{}: tr_close({:e}) = {:e} expected max(h-l, |h-pc|, |l-pc|) = {:e}", desc(), pc, got, e);
			let prev = Candle { close: v(pc), ..k };
			ensure!(eqn(k.tr(&prev) as f64, got), "C18:tr", "{}: tr(prev) != tr_close(prev.close)", desc());
		}
	}
	// validate: three-valued oracle
	let prices = [o, h, l, c];
	let fin_pos = prices.iter().all(|x| x.is_finite() && *x > 0.0);
	let close_in = l <= c && c <= h;
	let open_in = l <= o && o <= h;
	let vol_ok = vol.is_nan() || vol >= 0.0;
	let must_accept = fin_pos && close_in && open_in && l <= h && vol_ok;
	let must_reject = !fin_pos || !(close_in) || h < l || !vol_ok;
	let got = k.validate();
	if must_accept {
		ensure!(got, "C18:validate-accept", "{}: validate() rejects a well-formed candle", desc());
		st.count("validate_accept", 1);
	} else if must_reject {
		ensure!(!got, "C18:validate-reject", "{}: validate() accepts a malformed candle", desc());
		st.count("validate_reject", 1);
	} else {
		st.count("validate_unspecified_open_outside", 1);
	}
	ensure!(OHLCV::validate(&tup) == got && OHLCV::validate(&arr) == got, "C18:validate-impls", "{}: tuple/array validate differ", desc());
	ensure!(Sequence::validate(&[k]) == got && Sequence::validate(&vec![k, k]) == got, "C18:sequence-validate", "{}: Sequence::validate of [k] differs from k.validate()", desc());
	Ok(())
}

#[derive(Serialize, Deserialize, Clone, Debug)]
pub struct GridCase {
	pub o: usize,
	pub h: usize,
}

fn run_grid(g: &GridCase, st: &mut Stats) -> CaseResult {
	let s = &SPECIALS;
	for &l in s {
		for &c in s {
			for &vol in s {
				check_candle(s[g.o], s[g.h], l, c, vol, s, st)?;
				st.nontrivial_bulk(1);
			}
		}
	}
	st.sample("special-grid", || serde_json::json!({"open": format!("{:e}", s[g.o]), "high": format!("{:e}", s[g.h]), "low/close/volume": "all 11^3 combinations of the special set"}));
	Ok(())
}

#[derive(Serialize, Deserialize, Clone, Debug)]
pub struct RandCandles {
	pub cs: Vec<[Fx; 5]>,
	pub pcs: Vec<Fx>,
	pub vals: Vec<Fx>,
}

fn any_value() -> impl Strategy<Value = Fx> {
	prop_oneof![
		4 => (1e-3f64..1e4).prop_map(Fx),
		1 => proptest::sample::select(SPECIALS.to_vec()).prop_map(Fx),
		1 => (-1e4f64..1e4).prop_map(Fx),
		1 => any::<f64>().prop_map(Fx),
	]
}

fn rand_candles() -> impl Strategy<Value = RandCandles> {
	let valid = (1e-3f64..1e4, 0.0f64..0.2, 0.0f64..0.2, 0.0f64..1.0, 0.0f64..1.0, prop_oneof![Just(f64::NAN), Just(0.0), 0.0f64..1e6]).prop_map(|(base, up, dn, fo, fc, vol)| {
		let (h, l) = (base * (1.0 + up), base * (1.0 - dn));
		let o = l + (h - l) * fo;
		let c = l + (h - l) * fc;
		[Fx(o.clamp(l, h)), Fx(h), Fx(l), Fx(c.clamp(l, h)), Fx(vol)]
	});
	let anyc = (any_value(), any_value(), any_value(), any_value(), any_value()).prop_map(|(a, b, c, d, e)| [a, b, c, d, e]);
	(proptest::collection::vec(prop_oneof![2 => valid, 1 => anyc], 3..12), proptest::collection::vec(any_value(), 1..6), proptest::collection::vec(any_value(), 0..8)).prop_map(|(cs, pcs, vals)| RandCandles { cs, pcs, vals })
}

fn run_rand(r: &RandCandles, st: &mut Stats) -> CaseResult {
	let pcs: Vec<f64> = r.pcs.iter().map(|x| x.0).collect();
	let mut special = false;
	for k in &r.cs {
		check_candle(k[0].0, k[1].0, k[2].0, k[3].0, k[4].0, &pcs, st)?;
		special |= k.iter().any(|x| !x.0.is_finite() || x.0 <= 0.0);
	}
	// aggregation by + is associative
	let cs: Vec<Candle> = r.cs.iter().map(|k| Candle { open: v(k[0].0), high: v(k[1].0), low: v(k[2].0), close: v(k[3].0), volume: v(k[4].0) }).collect();
	for w in cs.windows(3) {
		let (a, b, c) = (w[0], w[1], w[2]);
		let x = (a + b) + c;
		let y = a + (b + c);
		let same = |p: ValueType, q: ValueType| eqn(p as f64, q as f64);
		ensure!(same(x.open, y.open) && same(x.close, y.close), "C18:add-assoc", "(a+b)+c and a+(b+c) differ in open/close: {:?} vs {:?}", x, y);
		// max/min ignore NaN operands in either grouping
		ensure!(same(x.high, y.high) && same(x.low, y.low), "C18:add-assoc-hl", "(a+b)+c and a+(b+c) differ in high/low: {:?} vs {:?} for {:?} {:?} {:?}", x, y, a, b, c);
		// float addition is associative only up to rounding of the partial sums
		let vs = (a.volume as f64).abs() + (b.volume as f64).abs() + (c.volume as f64).abs();
		let (xv, yv) = (x.volume as f64, y.volume as f64);
		ensure!(close(xv, yv, 2.0) || (xv - yv).abs() <= 4.0 * eps() * vs, "C18:add-assoc-volume", "volumes differ: {:e} vs {:e}", x.volume, y.volume);
		ensure!(same(x.open, a.open) && same(x.close, c.close), "C18:add-open-close", "a+b+c must keep the first open and the last close");
	}
	// Sequence::validate == for-all, for candle and value slices
	ensure!(Sequence::validate(&cs) == cs.iter().all(OHLCV::validate), "C18:sequence-validate", "Sequence::validate of a candle slice is not the conjunction");
	let vals: Vec<ValueType> = r.vals.iter().map(|x| v(x.0)).collect();
	ensure!(Sequence::validate(&vals) == vals.iter().all(|x| x.is_finite()), "C18:sequence-validate-values", "Sequence::validate of a value slice is not `all finite`");
	if special {
		st.nontrivial(engine::fnv(format!("{:?}", r).as_bytes()));
	}
	st.sample("random-candles", || serde_json::to_value(r).unwrap());
	Ok(())
}

// ---------------------------------------------------------------------------------------
// text forms

pub const SOURCE_NAMES: [(&str, Source); 9] = [
	("close", Source::Close),
	("open", Source::Open),
	("high", Source::High),
	("low", Source::Low),
	("hl2", Source::HL2),
	("tp", Source::TP),
	("hlc3", Source::TP),
	("volume", Source::Volume),
	("volumed_price", Source::VolumedPrice),
];

/// grammar oracle for Source
pub fn source_oracle(s: &str) -> Option<Source> {
	let t = s.trim();
	SOURCE_NAMES.iter().find(|(n, _)| t.eq_ignore_ascii_case(n)).map(|x| x.1)
}

pub const MA_NAMES: [&str; 15] = ["sma", "wma", "hma", "rma", "ema", "dma", "dema", "tma", "tema", "wsma", "smm", "swma", "trima", "linreg", "vidya"];

pub fn ma_of(name: &str, len: PeriodType) -> Option<MA> {
	Some(match name {
		"sma" => MA::SMA(len),
		"wma" => MA::WMA(len),
		"hma" => MA::HMA(len),
		"rma" => MA::RMA(len),
		"ema" => MA::EMA(len),
		"dma" => MA::DMA(len),
		"dema" => MA::DEMA(len),
		"tma" => MA::TMA(len),
		"tema" => MA::TEMA(len),
		"wsma" => MA::WSMA(len),
		"smm" => MA::SMM(len),
		"swma" => MA::SWMA(len),
		"trima" => MA::TRIMA(len),
		"linreg" => MA::LinReg(len),
		"vidya" => MA::Vidya(len),
		_ => return None,
	})
}

/// grammar oracle for MA: name '-' ['+'] digits, value <= PeriodType::MAX
pub fn ma_oracle(s: &str) -> Option<MA> {
	let (name, rest) = s.split_once('-')?;
	let digits = rest.strip_prefix('+').unwrap_or(rest);
	if digits.is_empty() || !digits.bytes().all(|b| b.is_ascii_digit()) {
		return None;
	}
	let mut val: u128 = 0;
	for b in digits.bytes() {
		val = val.checked_mul(10)?.checked_add((b - b'0') as u128)?;
		if val > PeriodType::MAX as u128 {
			return None;
		}
	}
	ma_of(name, val as PeriodType)
}

pub fn check_source_text(s: &str) -> CaseResult {
	let e = source_oracle(s);
	let got = s.parse::<Source>().ok();
	ensure!(got == e, "C18:source-parse", "{:?}.parse::<Source>() = {:?} expected {:?}", s, got, e);
	ensure!(Source::try_from(s).ok() == e && Source::try_from(s.to_string()).ok() == e, "C18:source-tryfrom", "TryFrom differs from FromStr for {:?}", s);
	Ok(())
}

pub fn check_ma_text(s: &str) -> CaseResult {
	let e = ma_oracle(s);
	let got = s.parse::<MA>().ok();
	ensure!(got == e, "C18:ma-parse", "{:?}.parse::<MA>() = {:?} expected {:?}", s, got, e);
	Ok(())
}

fn run_text_roundtrip(_: &u8, st: &mut Stats) -> CaseResult {
	for s in SOURCES {
		let a: &'static str = s.into();
		let b: String = s.into();
		ensure!(a == b, "C18:source-str-string", "&str and String forms of {:?} differ", s);
		ensure!(a.parse::<Source>().ok() == Some(s), "C18:source-roundtrip", "{:?} -> {:?} does not parse back", s, a);
		let j = serde_json::to_string(&s).unwrap();
		ensure!(serde_json::from_str::<Source>(&j).ok() == Some(s), "C18:source-serde", "{:?} serde form {} does not parse back", s, j);
		st.nontrivial_bulk(1);
	}
	let max = PeriodType::MAX as u64;
	let lens: Vec<u64> = if max <= 255 { (0..=max).collect() } else { (0..=300).chain([max - 1, max]).collect() };
	for name in MA_NAMES {
		for &len in &lens {
			let text = format!("{name}-{len}");
			let e = ma_of(name, len as PeriodType);
			let got = text.parse::<MA>().ok();
			ensure!(got == e && e.is_some(), "C18:ma-roundtrip", "{:?} parses to {:?} expected {:?}", text, got, e);
			let j = serde_json::to_string(&e.unwrap()).unwrap();
			ensure!(serde_json::from_str::<MA>(&j).ok() == e, "C18:ma-serde", "serde form {} does not parse back", j);
			st.nontrivial_bulk(1);
		}
		for bad in [format!("{name}-{}", max + 1), format!("{name}-"), format!("{name}"), format!("{name}--1"), format!("{name} -1"), format!("{name}- 1"), format!("{name}-1 "), format!("{}-1", name.to_uppercase()), format!("{name}_1"), format!("{name}-1.0"), format!("{name}-0x1")] {
			check_ma_text(&bad)?;
			ensure!(bad.parse::<MA>().is_err(), "C18:ma-reject", "{:?} is accepted", bad);
			st.nontrivial_bulk(1);
		}
		check_ma_text(&format!("{name}-+7"))?;
		check_ma_text(&format!("{name}-007"))?;
	}
	st.sample("text-roundtrip", || serde_json::json!("all 8 sources, all 15 MA names x all lengths 0..=PeriodType::MAX, fixed near-misses"));
	Ok(())
}

#[derive(Serialize, Deserialize, Clone, Debug)]
pub struct TextCase {
	pub s: String,
}

fn mutate(base: &str, kind: u8, pos: u16, ch: char) -> String {
	let chars: Vec<char> = base.chars().collect();
	let p = if chars.is_empty() { 0 } else { (pos as usize * (chars.len() + 1)) >> 16 };
	let mut out: Vec<char> = chars.clone();
	match kind % 6 {
		0 => out.insert(p.min(out.len()), ch),
		1 => {
			if p < out.len() {
				out.remove(p);
			}
		}
		2 => {
			if p < out.len() {
				out[p] = ch;
			}
		}
		3 => {
			if p < out.len() {
				out[p] = if out[p].is_ascii_lowercase() { out[p].to_ascii_uppercase() } else { out[p].to_ascii_lowercase() };
			}
		}
		4 => {
			out.insert(0, ch);
			out.push(ch);
		}
		_ => {
			if p + 1 < out.len() {
				out.swap(p, p + 1);
			}
		}
	}
	out.into_iter().collect()
}

fn text_strategy() -> impl Strategy<Value = TextCase> {
	let canon = prop_oneof![
		proptest::sample::select(SOURCE_NAMES.iter().map(|x| x.0.to_string()).collect::<Vec<_>>()),
		(proptest::sample::select(MA_NAMES.to_vec()), prop_oneof![0u32..=300, Just(65535u32), Just(65536u32)], prop_oneof![Just(""), Just("+"), Just("0"), Just("00")]).prop_map(|(n, l, p)| format!("{n}-{p}{l}")),
	];
	let chars = prop_oneof![
		proptest::sample::select(vec![' ', '\t', '\n', '-', '+', '_', '0', '1', '9', 'a', 'e', 'S', 'İ', 'ſ', 'K', '\u{a0}', '\u{2003}', '\u{feff}', '\u{0}', '٣']),
		any::<char>(),
	];
	prop_oneof![
		3 => canon.clone().prop_map(|s| TextCase { s }),
		6 => (canon.clone(), any::<u8>(), any::<u16>(), chars.clone()).prop_map(|(b, k, p, c)| TextCase { s: mutate(&b, k, p, c) }),
		2 => (canon, any::<u8>(), any::<u16>(), chars.clone(), any::<u8>(), any::<u16>(), chars).prop_map(|(b, k, p, c, k2, p2, c2)| TextCase { s: mutate(&mutate(&b, k, p, c), k2, p2, c2) }),
		1 => ".{0,40}".prop_map(|s| TextCase { s }),
	]
}

fn run_text(t: &TextCase, st: &mut Stats) -> CaseResult {
	check_source_text(&t.s)?;
	check_ma_text(&t.s)?;
	let accepted = source_oracle(&t.s).is_some() || ma_oracle(&t.s).is_some();
	st.class(if accepted { "accepted" } else { "rejected" });
	st.nontrivial(engine::fnv(t.s.as_bytes()));
	st.sample(if accepted { "text/accepted" } else { "text/rejected" }, || serde_json::to_value(t).unwrap());
	Ok(())
}

pub fn def(tier: Tier) -> PropertyDef {
	let mut checks: Vec<Box<dyn SubCheck>> = Vec::new();
	for part in 0..11usize {
		checks.push(enumerate(&format!("special_grid_{part:02}"), move |_, _| Box::new((0..11usize).map(move |h| GridCase { o: part, h })), run_grid));
	}
	for i in 0..4 {
		checks.push(pt(&format!("random_candles_{i}"), tier.pick(20000, 1000000), rand_candles(), run_rand));
	}
	checks.push(enumerate("text_roundtrip", |_, _| Box::new(std::iter::once(0u8)), run_text_roundtrip));
	for i in 0..4 {
		checks.push(pt(&format!("text_{i}"), tier.pick(80000, 4000000), text_strategy(), run_text));
	}
	let _ = fail_unused;
	checks.extend(crate::fuzz_entry::corpus_checks("C18"));
	PropertyDef {
		id: "C18",
		level: "exploration",
		rule: "Exhaustive: all 11^5 candles over {NaN,-inf,-1,-0.0,0,5e-324,1,2,3,1e300,+inf} x 11 previous closes (tp, hl2, ohlc4, volumed price, every Source, clv, tr_close, three-valued validate oracle, tuple/array/Candle agreement), all 8 sources and all 15 MA names x every length 0..=PeriodType::MAX for the text round trip; proptest: valid/invalid random candles (associativity of +, Sequence::validate), strings = canonical forms, one or two edits (insert/delete/replace/case flip/swap/wrap, incl. Unicode whitespace and case-folding traps) and arbitrary text against grammar oracles. Non-trivial = candle with a special (non-finite or non-positive) field, each enumerated grid candle / text form, each distinct string.",
		assumptions: vec![
			"validate(): candles whose only irregularity is `open` outside [low, high] are unspecified (doc and predicate disagree) and not asserted".into(),
			"tr_close is compared with == (NaN <=> NaN), i.e. up to the sign of zero".into(),
		],
		exhaustive: false,
		checks,
	}
}

#[allow(dead_code)]
fn fail_unused() -> CaseResult {
	fail!("unused", "unused")
}
