//! C15 — moving averages are averages: affine-equivariant, range-preserving, linear,
//! with the documented impulse response for every length.

use crate::approx::{allow, eps, Mag};
use crate::engine::{self, enumerate, pt, CaseResult, Failure, PropertyDef, Stats, SubCheck, Tier};
use crate::ensure;
use crate::gen::{self, Domain, ValStream};
use proptest::prelude::*;
use serde::{Deserialize, Serialize};
use yata::core::{Method, MovingAverageConstructor, PeriodType, ValueType};
use yata::helpers::{MAInstance, MA};
use yata::methods::{Conv, VWMA};

#[derive(Serialize, Deserialize, Clone, Copy, Debug, PartialEq, Eq, Hash)]
pub enum Kind {
	SMA,
	WMA,
	HMA,
	RMA,
	EMA,
	DMA,
	DEMA,
	TMA,
	TEMA,
	WSMA,
	SMM,
	SWMA,
	TRIMA,
	LinReg,
	Vidya,
}
pub const KINDS: [Kind; 15] = [
	Kind::SMA, Kind::WMA, Kind::HMA, Kind::RMA, Kind::EMA, Kind::DMA, Kind::DEMA, Kind::TMA, Kind::TEMA, Kind::WSMA, Kind::SMM, Kind::SWMA, Kind::TRIMA,
	Kind::LinReg, Kind::Vidya,
];

impl Kind {
	pub fn ma(self, n: u32) -> MA {
		let n = n as PeriodType;
		match self {
			Kind::SMA => MA::SMA(n),
			Kind::WMA => MA::WMA(n),
			Kind::HMA => MA::HMA(n),
			Kind::RMA => MA::RMA(n),
			Kind::EMA => MA::EMA(n),
			Kind::DMA => MA::DMA(n),
			Kind::DEMA => MA::DEMA(n),
			Kind::TMA => MA::TMA(n),
			Kind::TEMA => MA::TEMA(n),
			Kind::WSMA => MA::WSMA(n),
			Kind::SMM => MA::SMM(n),
			Kind::SWMA => MA::SWMA(n),
			Kind::TRIMA => MA::TRIMA(n),
			Kind::LinReg => MA::LinReg(n),
			Kind::Vidya => MA::Vidya(n),
		}
	}
	pub fn min_len(self) -> u32 {
		match self {
			Kind::HMA | Kind::LinReg => 2,
			_ => 1,
		}
	}
	pub fn max_len(self) -> u32 {
		match self {
			Kind::WSMA => 127,
			_ => 254,
		}
	}
	/// weights are non-negative: output stays in the hull of the inputs
	pub fn nonneg(self) -> bool {
		!matches!(self, Kind::HMA | Kind::DEMA | Kind::TEMA | Kind::LinReg)
	}
	pub fn linear(self) -> bool {
		!matches!(self, Kind::SMM | Kind::Vidya)
	}
	/// l1 gain bound used in the allowance
	pub fn gain(self) -> f64 {
		match self {
			Kind::HMA | Kind::LinReg => 4.0,
			Kind::DEMA => 3.0,
			Kind::TEMA => 7.0,
			Kind::DMA | Kind::TRIMA => 2.0,
			Kind::TMA => 3.0,
			_ => 1.0,
		}
	}
	pub fn init(self, n: u32, v: f64) -> Result<MAInstance, Failure> {
		self.ma(n).init(v as ValueType).map_err(|e| Failure::new(format!("C15:{self:?}:ctor"), format!("MA::{self:?}({n}).init({v}) failed: {e:?}")))
	}
}

#[derive(Serialize, Deserialize, Clone, Debug)]
pub struct AffCase {
	pub kind: Kind,
	pub s: ValStream,
	pub a: f64,
	pub b: f64,
	/// second stream for superposition
	pub ys: Vec<f64>,
}

fn run_laws(c: &AffCase, st: &mut Stats) -> CaseResult {
	let k = c.kind;
	let n = c.s.n.clamp(k.min_len(), k.max_len());
	let nn = n as usize;
	let xs: Vec<f64> = c.s.xs.iter().map(|&x| gen::vt(x)).collect();
	let init = xs[0];
	let g = k.gain();
	// plain run + hull
	let mut m = k.init(n, init)?;
	let mut outs = Vec::with_capacity(xs.len());
	let mut mag = Mag::new(init);
	let (mut lo, mut hi) = (init, init);
	for (t, &x) in xs.iter().enumerate() {
		let mt = mag.add(x);
		lo = lo.min(x);
		hi = hi.max(x);
		let o = m.next(&(x as ValueType)) as f64;
		ensure!(o.is_finite(), &format!("C15:{k:?}:non-finite"), "{k:?}({n}) step {t}: output {o:?}");
		if k.nonneg() {
			let a = allow(nn, t, mt, g);
			ensure!(o >= lo - a && o <= hi + a, &format!("C15:{k:?}:hull"), "{k:?}({n}) step {t}: output {o:e} outside [{lo:e}, {hi:e}] spanned by its inputs (allowance {a:e})");
		}
		outs.push(o);
	}
	// (ii) a constant is reproduced (no drift): feed the construction value 3n+10 times
	{
		let v = if xs.len() > 1 { xs[1] } else { init };
		let mut mc = k.init(n, v)?;
		for j in 0..(3 * nn + 10) {
			let o = mc.next(&(v as ValueType)) as f64;
			let tol = allow(nn, j, v.abs(), g);
			ensure!((o - v).abs() <= tol, &format!("C15:{k:?}:constant"), "{k:?}({n}) fed its construction value {v:e}: output {o:e} at step {j} (difference {:e} > {tol:e})", (o - v).abs());
		}
	}
	// affine image
	let (a, b) = (c.a, c.b);
	let ys: Vec<f64> = xs.iter().map(|&x| gen::vt(a * x + b)).collect();
	let mut m2 = k.init(n, ys[0])?;
	let mut mag2 = Mag::new(ys[0]);
	// rounding of the transformed inputs themselves: |y - (a x + b)| <= eps * |y|
	for (t, &y) in ys.iter().enumerate() {
		let mt = mag2.add(y).max(a.abs() * mag.0 + b.abs());
		let o2 = m2.next(&(y as ValueType)) as f64;
		let e = a * outs[t] + b;
		let exact_inputs = ys.iter().zip(xs.iter()).take(t + 1).all(|(y, x)| *y == a * x + b && (a * x + b - b) / a == *x);
		if matches!(k, Kind::Vidya | Kind::SMM) && !exact_inputs {
			// nonlinear kinds: only transformations that are exact in floating point are compared
			st.count("affine_skipped_inexact", 1);
			break;
		}
		let tol = allow(nn, t, mt, g * 2.0) + 4.0 * eps() * mt * g;
		st.ratio((o2 - e).abs() / tol);
		ensure!((o2 - e).abs() <= tol, &format!("C15:{k:?}:affine"), "{k:?}({n}) step {t}: MA(a*x+b) = {o2:e} but a*MA(x)+b = {e:e} (a = {a:e}, b = {b:e}, allowance {tol:e})");
	}
	// superposition
	if k.linear() {
		let zs: Vec<f64> = xs.iter().zip(c.ys.iter().cycle()).map(|(_, y)| gen::vt(*y)).collect();
		let sum: Vec<f64> = xs.iter().zip(zs.iter()).map(|(x, z)| gen::vt(x + z)).collect();
		let mut mz = k.init(n, zs[0])?;
		let mut ms = k.init(n, sum[0])?;
		let mut magz = Mag::new(zs[0]);
		for t in 0..xs.len() {
			let mt = magz.add(zs[t]) + mag.0;
			let oz = mz.next(&(zs[t] as ValueType)) as f64;
			let os = ms.next(&(sum[t] as ValueType)) as f64;
			let tol = allow(nn, t, mt, g * 3.0);
			st.ratio((os - (outs[t] + oz)).abs() / tol);
			ensure!((os - (outs[t] + oz)).abs() <= tol, &format!("C15:{k:?}:superposition"), "{k:?}({n}) step {t}: MA(x+y) = {os:e} but MA(x)+MA(y) = {:e} (allowance {tol:e})", outs[t] + oz);
		}
	}
	st.count("steps", xs.len() as u64);
	st.set_add(&format!("{k:?}-lengths"), n as u64);
	let moving = xs.iter().any(|x| *x != xs[0]);
	if a != 1.0 && b != 0.0 && moving {
		st.nontrivial(engine::mix(engine::fnv(format!("{k:?}{n}").as_bytes()), engine::fnv_f64s(&xs) ^ a.to_bits() ^ b.to_bits().rotate_left(17)));
	}
	st.class(&format!("{k:?}"));
	st.class(if a < 0.0 { "a<0" } else { "a>0" });
	st.sample(&format!("{k:?}"), || serde_json::to_value(c).unwrap());
	Ok(())
}

fn laws_strategy(kind: Kind, max_len: usize) -> impl Strategy<Value = AffCase> {
	// real-valued transformations for the linear kinds, exactly representable ones for SMM/Vidya
	let exact = matches!(kind, Kind::SMM | Kind::Vidya);
	let ab = if exact {
		// ... and pure changes of unit by large powers of two (exact for every float operation short of underflow):
		// an absolute threshold anywhere in a nonlinear average shows as a loss of scale equivariance
		prop_oneof![
			4 => (proptest::sample::select(vec![-4.0f64, -2.0, -1.0, -0.5, 0.5, 2.0, 4.0, 8.0]), (-64i32..=64).prop_map(|b| b as f64)),
			1 => (proptest::sample::select(vec![-70i32, -40, 40, 70]), any::<bool>()).prop_map(|(e, neg)| ((2f64).powi(e) * if neg { -1.0 } else { 1.0 }, 0.0)),
		]
		.sboxed()
	} else {
		((-3i32..=3, 1000u32..10000, any::<bool>()).prop_map(|(e, m, s)| (m as f64 / 1000.0) * 10f64.powi(e) * if s { -1.0 } else { 1.0 }), (-5i32..=5, 0u32..10000, any::<bool>()).prop_map(|(e, m, s)| (m as f64 / 1000.0) * 10f64.powi(e) * if s { -1.0 } else { 1.0 })).sboxed()
	};
	let stream = if exact {
		// integer lattice streams: every transformation above is exact on them
		(gen::length_strategy(kind.min_len()), proptest::collection::vec(-40i32..=40, 2..max_len)).prop_map(|(n, v)| ValStream { n, init: v[0] as f64, xs: v.into_iter().map(|x| x as f64).collect() }).sboxed()
	} else {
		gen::val_stream(kind.min_len(), max_len, Domain::Any, false).prop_map(|mut s| {
			// keep a*x+b inside the magnitude domain
			for x in s.xs.iter_mut() {
				*x = x.clamp(-1e5, 1e5);
			}
			s.init = s.xs[0];
			s
		}).sboxed()
	};
	(stream, ab, proptest::collection::vec(-1000i32..1000, 1..40)).prop_map(move |(s, (a, b), ys)| AffCase { kind, s, a, b, ys: ys.into_iter().map(|y| y as f64 * 0.37).collect() })
}

// ---------------------------------------------------------------------------------------
// impulse responses, every length

#[derive(Serialize, Deserialize, Clone, Debug)]
pub struct ImpCase {
	pub kind: Kind,
	pub n: u32,
}

fn binom2(k: usize) -> f64 {
	((k + 2) * (k + 1) / 2) as f64
}

fn wma_profile(n: usize) -> Vec<f64> {
	(0..n).map(|k| 2.0 * (n - k) as f64 / (n * (n + 1)) as f64).collect()
}

fn convolve(a: &[f64], b: &[f64]) -> Vec<f64> {
	let mut r = vec![0.0; a.len() + b.len() - 1];
	for (i, x) in a.iter().enumerate() {
		for (j, y) in b.iter().enumerate() {
			r[i + j] += x * y;
		}
	}
	r
}

/// documented weight profile: response at k steps after a unit impulse
pub fn profile(kind: Kind, n: usize, steps: usize) -> Option<Vec<f64>> {
	let nf = n as f64;
	let mut p: Vec<f64> = match kind {
		Kind::SMA => (0..n).map(|_| 1.0 / nf).collect(),
		Kind::WMA => wma_profile(n),
		Kind::SWMA => {
			let s: f64 = (0..n).map(|k| (k + 1).min(n - k) as f64).sum();
			(0..n).map(|k| (k + 1).min(n - k) as f64 / s).collect()
		}
		Kind::TRIMA => {
			let b: Vec<f64> = vec![1.0 / nf; n];
			convolve(&b, &b)
		}
		Kind::EMA | Kind::RMA | Kind::WSMA | Kind::DMA | Kind::TMA | Kind::DEMA | Kind::TEMA => {
			let a = if matches!(kind, Kind::RMA | Kind::WSMA) { 1.0 / nf } else { 2.0 / (nf + 1.0) };
			(0..steps)
				.map(|k| {
					let q = (1.0 - a).powi(k as i32);
					let e1 = a * q;
					let e2 = (k + 1) as f64 * a * a * q;
					let e3 = binom2(k) * a * a * a * q;
					match kind {
						Kind::EMA | Kind::RMA | Kind::WSMA => e1,
						Kind::DMA => e2,
						Kind::TMA => e3,
						Kind::DEMA => 2.0 * e1 - e2,
						_ => 3.0 * (e1 - e2) + e3,
					}
				})
				.collect()
		}
		Kind::LinReg => (0..n).map(|k| 2.0 * (2.0 * nf - 1.0 - 3.0 * k as f64) / (nf * (nf + 1.0))).collect(),
		Kind::HMA => {
			let h = n / 2;
			let s = (nf.sqrt()) as usize;
			let mut inner = vec![0.0; n];
			for (k, w) in wma_profile(h).into_iter().enumerate() {
				inner[k] += 2.0 * w;
			}
			for (k, w) in wma_profile(n).into_iter().enumerate() {
				inner[k] -= w;
			}
			convolve(&wma_profile(s), &inner)
		}
		Kind::SMM => match n {
			1 => vec![1.0],
			2 => vec![0.5, 0.5],
			_ => vec![0.0],
		},
		Kind::Vidya => return None,
	};
	p.resize(steps, 0.0);
	Some(p)
}

fn run_impulse(c: &ImpCase, st: &mut Stats) -> CaseResult {
	let n = c.n as usize;
	let steps = 4 * n + 8;
	let Some(p) = profile(c.kind, n, steps) else { return Ok(()) };
	let mut m = c.kind.init(c.n, 0.0)?;
	let g = c.kind.gain();
	for (k, &e) in p.iter().enumerate() {
		let x = if k == 0 { 1.0 } else { 0.0 };
		let o = m.next(&(x as ValueType)) as f64;
		let tol = allow(n, k, 1.0, g);
		st.ratio((o - e).abs() / tol);
		ensure!((o - e).abs() <= tol, &format!("C15:{:?}:impulse", c.kind), "{:?}({}) impulse response at k = {}: {:e} expected {:e} (allowance {:e})", c.kind, n, k, o, e, tol);
	}
	st.nontrivial_bulk(1);
	st.count("impulse_steps", steps as u64);
	st.sample(&format!("impulse/{:?}", c.kind), || serde_json::to_value(c).unwrap());
	Ok(())
}

// ---------------------------------------------------------------------------------------
// Conv and VWMA

#[derive(Serialize, Deserialize, Clone, Debug)]
pub struct ConvLaw {
	pub weights: Vec<f64>,
	pub xs: Vec<f64>,
	pub a: f64,
	pub b: f64,
}

fn run_conv(c: &ConvLaw, st: &mut Stats) -> CaseResult {
	let n = c.weights.len();
	let w: Vec<ValueType> = c.weights.iter().map(|&x| x as ValueType).collect();
	let xs: Vec<f64> = c.xs.iter().map(|&x| gen::vt(x)).collect();
	let ys: Vec<f64> = xs.iter().map(|&x| gen::vt(c.a * x + c.b)).collect();
	let nonneg = c.weights.iter().all(|x| *x >= 0.0);
	let sa: f64 = c.weights.iter().map(|x| x.abs()).sum();
	let g = sa / c.weights.iter().sum::<f64>().abs();
	let mut m = Conv::new(w.clone(), &(xs[0] as ValueType)).map_err(|e| Failure::new("C15:Conv:ctor", format!("{e:?}")))?;
	let mut m2 = Conv::new(w.clone(), &(ys[0] as ValueType)).map_err(|e| Failure::new("C15:Conv:ctor", format!("{e:?}")))?;
	let (mut lo, mut hi) = (xs[0], xs[0]);
	let mut mag = Mag::new(xs[0]);
	for t in 0..xs.len() {
		let mt = mag.add(xs[t]);
		lo = lo.min(xs[t]);
		hi = hi.max(xs[t]);
		let o = m.next(&(xs[t] as ValueType)) as f64;
		let o2 = m2.next(&(ys[t] as ValueType)) as f64;
		let a = allow(n, 0, mt, g);
		if nonneg {
			ensure!(o >= lo - a && o <= hi + a, "C15:Conv:hull", "Conv step {t}: {o:e} outside [{lo:e}, {hi:e}]");
		}
		let m2t = c.a.abs() * mt + c.b.abs();
		let tol = allow(n, 0, m2t, 2.0 * g);
		ensure!((o2 - (c.a * o + c.b)).abs() <= tol, "C15:Conv:affine", "Conv step {t}: Conv(a*x+b) = {o2:e} but a*Conv(x)+b = {:e}", c.a * o + c.b);
	}
	// impulse response = reversed normalised weights
	let mut mi = Conv::new(w, &0.0).map_err(|e| Failure::new("C15:Conv:ctor", format!("{e:?}")))?;
	let ws: f64 = c.weights.iter().sum();
	for k in 0..n + 3 {
		let o = mi.next(&(if k == 0 { 1.0 } else { 0.0 })) as f64;
		let e = if k < n { c.weights[n - 1 - k] / ws } else { 0.0 };
		ensure!((o - e).abs() <= allow(n, 0, 1.0, g), "C15:Conv:impulse", "Conv impulse response at k = {k}: {o:e} expected {e:e}");
	}
	if c.a != 1.0 && c.b != 0.0 {
		st.nontrivial(engine::fnv_f64s(&xs) ^ engine::fnv_f64s(&c.weights));
	}
	st.class(if nonneg { "conv-nonneg" } else { "conv-signed" });
	st.sample("Conv", || serde_json::to_value(c).unwrap());
	Ok(())
}

fn conv_strategy(max_len: usize) -> impl Strategy<Value = ConvLaw> {
	(proptest::collection::vec((1u16..=u16::MAX, any::<u8>()), 1..80), any::<bool>(), gen::spec_strategy(8), -3.0f64..3.0, -100.0f64..100.0).prop_map(move |(raw, signed, spec, a, b)| {
		let mut w: Vec<f64> = raw.iter().map(|&(m, s)| m as f64 / 6553.6 * if signed && s < 40 { -1.0 } else { 1.0 }).collect();
		let sa: f64 = w.iter().map(|x| x.abs()).sum();
		let mut i = 0;
		while w.iter().sum::<f64>().abs() < sa / 16.0 && i < w.len() {
			w[i] = w[i].abs();
			i += 1;
		}
		let xs: Vec<f64> = gen::build_stream(&spec, w.len(), max_len, Domain::Any).into_iter().map(|x| x.clamp(-1e5, 1e5)).collect();
		ConvLaw { weights: w.into_iter().map(gen::vt).collect(), xs, a: if a == 0.0 { 1.5 } else { a }, b }
	})
}

#[derive(Serialize, Deserialize, Clone, Debug)]
pub struct VwmaLaw {
	pub n: u32,
	pub pv: Vec<(f64, f64)>,
	pub a: f64,
	pub b: f64,
}

fn run_vwma(c: &VwmaLaw, st: &mut Stats) -> CaseResult {
	let n = c.n as usize;
	let p: Vec<(f64, f64)> = c.pv.iter().map(|x| (gen::vt(x.0), gen::vt(x.1))).collect();
	let q: Vec<(f64, f64)> = p.iter().map(|x| (gen::vt(c.a * x.0 + c.b), x.1)).collect();
	let mk = |v: &(f64, f64)| VWMA::new(c.n as PeriodType, &(v.0 as ValueType, v.1 as ValueType)).map_err(|e| Failure::new("C15:VWMA:ctor", format!("{e:?}")));
	let (mut m, mut m2) = (mk(&p[0])?, mk(&q[0])?);
	let (mut lo, mut hi) = (p[0].0, p[0].0);
	let mut mag = Mag::new(p[0].0);
	let mut magv = Mag::new(p[0].1);
	let mut vols: Vec<f64> = vec![p[0].1; n];
	for t in 0..p.len() {
		let mt = mag.add(p[t].0);
		let mv = magv.add(p[t].1);
		lo = lo.min(p[t].0);
		hi = hi.max(p[t].0);
		vols.push(p[t].1);
		let o = m.next(&(p[t].0 as ValueType, p[t].1 as ValueType)) as f64;
		let o2 = m2.next(&(q[t].0 as ValueType, q[t].1 as ValueType)) as f64;
		let true_vol: f64 = vols[vols.len() - n..].iter().sum();
		if true_vol == 0.0 {
			// formula undefined (zero total volume): exempt as the property states
			st.count("exempt_zero_volume", 1);
			continue;
		}
		// relative allowance of the volume-normalised quotient: residues of the running sums
		let rel = allow(n, t, mv, n as f64) / true_vol;
		ensure!(o.is_finite(), "C15:VWMA:non-finite", "VWMA({n}) step {t}: {o:?} with total volume {true_vol:e}");
		let a = allow(n, t, mt, 1.0) + rel * mt * 2.0;
		st.ratio(((o - hi).max(lo - o)).max(0.0) / a);
		ensure!(o >= lo - a && o <= hi + a, "C15:VWMA:hull", "VWMA({n}) step {t}: {o:e} outside [{lo:e}, {hi:e}] (allowance {a:e}, total volume {true_vol:e}, largest volume so far {mv:e})");
		let m2t = c.a.abs() * mt + c.b.abs();
		let tol = allow(n, t, m2t, 2.0) + rel * m2t * 4.0;
		ensure!((o2 - (c.a * o + c.b)).abs() <= tol, "C15:VWMA:affine", "VWMA({n}) step {t}: VWMA(a*p+b) = {o2:e} but a*VWMA(p)+b = {:e} (allowance {tol:e})", c.a * o + c.b);
	}
	if p.len() > n {
		st.nontrivial(engine::fnv(format!("{:?}", &c.pv[..c.pv.len().min(24)]).as_bytes()) ^ c.n as u64);
	}
	st.sample("VWMA", || serde_json::to_value(c).unwrap());
	Ok(())
}

fn vwma_strategy(max_len: usize) -> impl Strategy<Value = VwmaLaw> {
	(gen::length_strategy(1), gen::spec_strategy(8), gen::spec_strategy(8), -3.0f64..3.0, -100.0f64..100.0).prop_map(move |(n, ps, vs, a, b)| {
		let p = gen::build_stream(&ps, n as usize, max_len, Domain::Any);
		let v = gen::build_stream(&vs, n as usize, max_len, Domain::NonNegative);
		let len = p.len().min(v.len());
		VwmaLaw { n, pv: (0..len).map(|i| (p[i].clamp(-1e5, 1e5), v[i].min(1e6))).collect(), a: if a == 0.0 { -1.25 } else { a }, b }
	})
}

pub fn def(tier: Tier) -> PropertyDef {
	let mut checks: Vec<Box<dyn SubCheck>> = Vec::new();
	let max_len = tier.pick(300usize, 1200);
	for kind in KINDS {
		checks.push(pt(&format!("laws_{kind:?}"), tier.pick(10000, 40000), laws_strategy(kind, max_len), run_laws));
	}
	for kind in KINDS {
		checks.push(enumerate(
			&format!("impulse_{kind:?}"),
			move |_, _| Box::new((kind.min_len()..=kind.max_len()).map(move |n| ImpCase { kind, n })),
			run_impulse,
		));
	}
	checks.push(pt("conv", tier.pick(6000, 30000), conv_strategy(max_len), run_conv));
	checks.push(pt("vwma", tier.pick(6000, 30000), vwma_strategy(max_len), run_vwma));
	PropertyDef {
		id: "C15",
		level: "exploration",
		rule: "Per MA kind (15 kinds through MA::init, plus Conv and VWMA): proptest streams with generated a (either sign) and b checking (i) affine equivariance, (iii) hull of all inputs so far for the non-negative-weight kinds (no conditioning exemption), (iv) superposition for the linear kinds; (v) enumerated impulse responses for EVERY length (1..=254, WSMA 1..=127) over 4n+8 steps against the documented closed-form weight profile. Non-trivial = a != 1 and b != 0 on a stream that moves; every (kind, length) impulse response counts once (distinct by construction).",
		assumptions: vec![
			"allowance of DESIGN 4.2 with the l1 gain of the kind".into(),
			"SMM and Vidya (non-linear) are compared only under transformations that are exact in floating point (integer lattice streams, a = +-2^k, integer b)".into(),
			"VWMA: steps whose true total window volume is exactly 0 are exempt (formula undefined); the allowance of the quotient is scaled by largest-volume-so-far / true window volume".into(),
		],
		exhaustive: false,
		checks,
	}
}
