//! C19 — the unsafe_performance feature changes nothing observable (transcript differential
//! between two builds of the same source tree). Memory safety: ASan fuzz targets, see /verif/fuzz.
//! C20 re-uses the differential for the period_type_* builds.

use crate::engine::{self, CaseResult, Failure, PropertyDef, RunCfg, Stats, SubCheck, Tier, Violation};
use crate::transcript::{Program, ProgramGen, Trace};
use serde_json::Value;
use std::process::Command;

pub struct DiffBuilds {
	pub property: &'static str,
	pub name: String,
	/// feature set of the other build; its binary path is taken from YVERIF_BIN_<feature set>
	pub feature: String,
	pub chunk: u64,
	pub count: usize,
	pub max_len: usize,
}

pub fn other_binary(feature: &str) -> Result<String, String> {
	let key = format!("YVERIF_BIN_{}", feature.replace(',', "__"));
	std::env::var(&key).map_err(|_| format!("environment variable {key} (path of the harness built with --features {feature}) is not set; run through /verif/check"))
}

impl DiffBuilds {
	fn other_lines(&self, seed: u64) -> Result<Vec<String>, String> {
		let bin = other_binary(&self.feature)?;
		let out = Command::new(&bin)
			.args(["transcript", &seed.to_string(), &self.chunk.to_string(), &self.count.to_string(), &self.max_len.to_string()])
			.output()
			.map_err(|e| format!("cannot run {bin}: {e}"))?;
		let mut lines: Vec<String> = String::from_utf8_lossy(&out.stdout).lines().map(|l| l.to_string()).collect();
		if !out.status.success() {
			// the other build died (abort, segfault, sanitizer report): the program after the last complete
			// line is the one that killed it
			if lines.len() > self.count {
				return Err(format!("{bin} transcript exited with {:?}", out.status));
			}
			let err: String = String::from_utf8_lossy(&out.stderr).lines().filter(|l| !l.trim().is_empty()).take(3).collect::<Vec<_>>().join(" | ");
			lines.truncate(self.count);
			lines.push(format!("CRASHED {:?} {}", out.status, err.chars().take(300).collect::<String>()));
		}
		Ok(lines)
	}

	fn compare(&self, p: &Program, mine: &Trace, other: &Trace) -> CaseResult {
		// a program on which the default build panics or refuses its parameters is outside the claim
		match mine {
			Trace::Panic(_) | Trace::Rejected => Ok(()),
			Trace::Hash(..) => {
				if mine == other {
					Ok(())
				} else {
					Err(Failure::new(
						format!("{}:{}:{}", self.property, self.feature, p.class()),
						format!("build with feature(s) {} differs from the default build on a {} program: default {}, {} {}", self.feature, p.class(), mine.line(), self.feature, other.line()),
					))
				}
			}
		}
	}
}

impl SubCheck for DiffBuilds {
	fn name(&self) -> String {
		self.name.clone()
	}

	fn run(&self, cfg: &RunCfg, stats: &mut Stats) -> Option<Violation> {
		let other = match self.other_lines(cfg.seed) {
			Ok(l) => l,
			Err(e) => {
				// infrastructure trouble is not a violation: exit 2 through the driver
				eprintln!("INFRASTRUCTURE: {e}");
				std::process::exit(2);
			}
		};
		let mut g = ProgramGen::new(cfg.seed, self.chunk, self.max_len);
		for i in 0..self.count {
			let p = g.next_program();
			let mine = p.trace();
			stats.evals += 1;
			if let Some(l) = other.get(i) {
				if let Some(why) = l.strip_prefix("CRASHED ") {
					let f = Failure::new(format!("{}:{}:crash:{}", self.property, self.feature, p.class()), format!("the build with feature(s) {} was killed while running a {} program on which the default build gives {}: {}", self.feature, p.class(), mine.line(), why));
					return Some(Violation { check: self.name.clone(), failure: f, case: serde_json::to_value(&p).unwrap_or(Value::Null) });
				}
			}
			let Some(line) = other.get(i) else {
				eprintln!("INFRASTRUCTURE: the other build printed {} lines, expected {}", other.len(), self.count);
				std::process::exit(2);
			};
			let mut parts = line.splitn(3, ' ');
			let (_idx, class, rest) = (parts.next(), parts.next().unwrap_or(""), parts.next().unwrap_or(""));
			if class != p.class() {
				eprintln!("INFRASTRUCTURE: program generators of the two builds diverged at #{i}: {} vs {}", p.class(), class);
				std::process::exit(2);
			}
			let theirs = Trace::parse(rest);
			match &mine {
				Trace::Panic(_) => stats.count("default_build_panicked", 1),
				Trace::Rejected => stats.count("default_build_rejected", 1),
				_ => {}
			}
			if let Err(f) = self.compare(&p, &mine, &theirs) {
				if cfg.is_known(&f.sig) {
					stats.excluded_known += 1;
					continue;
				}
				return Some(Violation { check: self.name.clone(), failure: f, case: serde_json::to_value(&p).unwrap_or(Value::Null) });
			}
			if p.nontrivial() && matches!(mine, Trace::Hash(..)) {
				stats.nontrivial(engine::fnv(format!("{:?}", mine).as_bytes()) ^ i as u64);
			}
			stats.class(p.class().split(':').next().unwrap_or("?"));
			if i % 97 == 0 {
				stats.sample(&p.class(), || serde_json::to_value(&p).unwrap_or(Value::Null));
			}
		}
		None
	}

	fn replay(&self, case: &Value, stats: &mut Stats) -> CaseResult {
		let p: Program = serde_json::from_value(case.clone()).map_err(|e| Failure::new("replay-decode", e.to_string()))?;
		stats.evals += 1;
		let mine = p.trace();
		let bin = other_binary(&self.feature).map_err(|e| Failure::new("infrastructure", e))?;
		let dir = std::path::Path::new(engine::VERIF_DIR).join("harness").join(".run");
		let _ = std::fs::create_dir_all(&dir);
		let file = dir.join(format!("trace-one-{}.json", std::process::id()));
		std::fs::write(&file, serde_json::to_string(&p).unwrap()).map_err(|e| Failure::new("infrastructure", e.to_string()))?;
		let out = Command::new(&bin).args(["trace-one", file.to_str().unwrap()]).output().map_err(|e| Failure::new("infrastructure", e.to_string()))?;
		let _ = std::fs::remove_file(&file);
		if !out.status.success() {
			return Err(Failure::new(format!("{}:{}:crash:{}", self.property, self.feature, p.class()), format!("the build with feature(s) {} was killed by this program ({:?}); the default build gives {}", self.feature, out.status, mine.line())));
		}
		let theirs = Trace::parse(String::from_utf8_lossy(&out.stdout).trim());
		self.compare(&p, &mine, &theirs)
	}
}

pub fn diff_checks(property: &'static str, feature: &str, tier: Tier, chunks: u64) -> Vec<Box<dyn SubCheck>> {
	(0..chunks)
		.map(|chunk| {
			Box::new(DiffBuilds {
				property,
				name: format!("transcript_{}_{chunk:02}", feature.replace(',', "+")),
				feature: feature.to_string(),
				chunk,
				count: tier.pick(1500, 6000),
				max_len: tier.pick(120, 300),
			}) as Box<dyn SubCheck>
		})
		.collect()
}

pub fn def(tier: Tier) -> PropertyDef {
	let mut checks = diff_checks("C19", "unsafe_performance", tier, 16);
	checks.extend(crate::fuzz_entry::corpus_checks("C19"));
	PropertyDef {
		id: "C19",
		level: "exploration",
		rule: "Generated API programs (a pure function of the seed, identical in both builds): every method kind with valid parameters (constructor, next, peek, a serde snapshot/restore and a clone switch at generated positions), Window<u32>/Window<Box<u32>> op sequences (push, every observer, iterator splits, from_parts, serde), every indicator with a generated configuration (init, next, snapshot/restore). The harness is built twice (default / --features unsafe_performance); each program yields a 128-bit hash of every returned bit (floats by to_bits) or PANIC; lines must be identical wherever the default build did not panic. Memory safety: the committed corpus and regression inputs of the fuzz targets (window_ops, smm_stream, method_program, window_json; semantic oracle inside each target) are replayed in the quick tier, the thorough tier runs libFuzzer+ASan campaigns on the unsafe_performance build. Non-trivial = program with window/span >= 2 that runs past a wrap of the ring and did not panic in the default build; distinct by hash of its transcript.",
		assumptions: vec!["both harness binaries are built by /verif/check from the current /repo tree".into(), "ASan campaigns are evidence of absence of invalid accesses on the explored inputs only".into()],
		exhaustive: false,
		checks,
	}
}
