//! C07 — accuracy does not decay with the length of the stream.
//!
//! Procedural streams (a pure function of a small parameter record) of 3*10^5 .. 10^7 steps;
//! the from-scratch definition is evaluated on a ring of the most recent inputs at late
//! checkpoints, and a fresh instance primed with the last window must agree with the old one.

use crate::approx::{allow, eps};
use crate::cfggen::{self, CfgCase, GenOpts};
use crate::dynm::{self, In, MParams, Nature, Out};
use crate::engine::{self, pt, CaseResult, Failure, PropertyDef, Stats, SubCheck, Tier};
use crate::gen::{self, C5};
use crate::props::c02::{self, Exp};
use crate::refm::{self, sel};
use crate::{ensure, fail};
use proptest::prelude::*;
use serde::{Deserialize, Serialize};
use yata::core::{Method, PeriodType, ValueType};
use yata::methods::{LowerReversalSignal, UpperReversalSignal};

#[derive(Serialize, Deserialize, Clone, Debug)]
pub struct LongCase {
	pub kind: String,
	pub n: u32,
	pub seed: u64,
	pub steps: u64,
	/// regime lengths are multiples of this
	pub regime: u32,
	/// a plain random walk without regime changes (magnitude of the history stays that of the present)
	#[serde(default)]
	pub plain: bool,
}

/// procedural stream: regimes volatile / flat / scale jump / drift / integer lattice
pub struct Proc {
	s: u64,
	i: u64,
	level: f64,
	cur: f64,
	phase: u8,
	left: u64,
	regime: u64,
	pub regime_changes: u64,
	positive: bool,
	pub plain: bool,
}

impl Proc {
	pub fn new(seed: u64, regime: u32, positive: bool) -> Self {
		Self { s: seed, i: 0, level: 100.0, cur: 100.0, phase: 0, left: 0, regime: regime.max(8) as u64, regime_changes: 0, positive, plain: false }
	}
	fn rnd(&mut self) -> f64 {
		self.s = engine::mix(self.s, self.i);
		(self.s >> 11) as f64 / (1u64 << 53) as f64
	}
	pub fn next(&mut self) -> f64 {
		self.i += 1;
		if self.left == 0 {
			let r = self.rnd();
			self.phase = if self.plain { 0 } else { (r * 6.0) as u8 };
			let k = 1 + (self.rnd() * 6.0) as u64;
			self.left = self.regime * k;
			self.regime_changes += 1;
			if self.phase == 2 {
				// scale jump by 10^+-k inside the magnitude domain
				let e = ((self.rnd() * 9.0) as i32) - 4;
				self.level = (self.level * 10f64.powi(e)).clamp(1e-4, 1e8);
				self.cur = self.level;
			}
			if self.phase == 5 && !self.positive {
				self.level = -self.level;
				self.cur = self.level;
			}
		}
		self.left -= 1;
		let r = self.rnd();
		let v = match self.phase {
			0 => self.cur + (r - 0.5) * self.level.abs() * 0.02,   // random walk
			1 => self.cur,                                          // exactly flat
			2 => self.level * (1.0 + (r - 0.5) * 0.1),              // iid around the new level
			3 => self.cur + self.level.abs() * 1e-4 * (0.5 + r),    // monotone drift
			4 => self.level.abs().max(1.0).round() + (r * 5.0).floor(), // small lattice (ties)
			_ => self.cur * (1.0 + (r - 0.5) * 0.01),
		};
		let v = if self.positive { v.abs().max(1e-4) } else { v };
		self.cur = gen::vt(v.clamp(-1e9, 1e9));
		self.cur
	}
}

fn checkpoints(steps: u64, n: u64) -> Vec<u64> {
	// geometrically spaced, plus bands around multiples of 2^8 / 2^16 boundaries, plus the end
	let mut v = Vec::new();
	let mut t = 1000u64.max(4 * n);
	while t < steps {
		v.push(t);
		t = t * 3 / 2 + 17;
	}
	for b in [256u64, 65536, 131072, 1 << 20, 1 << 24] {
		if b + n + 3 < steps {
			v.push(b + n + 3);
		}
	}
	v.push(steps - 1);
	v.sort();
	v.dedup();
	v
}

fn is_exact_step(t: u64, steps: u64, n: u64) -> bool {
	let first = 2 * 256 + n + 8;
	if t < first || t + 1000 >= steps || t % 997 == 0 {
		return true;
	}
	for b in [256u64, 65536] {
		let r = t % b;
		if r <= n + 3 || r + n + 3 >= b {
			return true;
		}
	}
	false
}

/// exact-selection reference on the ring (oldest first, last n values)
fn exact_ref(kind: &str, w: &[f64]) -> Option<Out> {
	Some(match kind {
		"Highest" => Out::V(sel::max(w) as ValueType),
		"Lowest" => Out::V(sel::min(w) as ValueType),
		"HighestLowestDelta" => Out::V((sel::max(w) - sel::min(w)) as ValueType),
		"HighestIndex" => Out::I(sel::newest_argmax_age(w) as u64),
		"LowestIndex" => Out::I(sel::newest_argmin_age(w) as u64),
		"SMM" => Out::V(sel::median(w) as ValueType),
		"Past" => return None,
		_ => return None,
	})
}

fn run_long(c: &LongCase, st: &mut Stats) -> CaseResult {
	let kind = dynm::kind(&c.kind).ok_or_else(|| Failure::new("C07:harness", "unknown kind"))?;
	let name = kind.name;
	let n = c.n as usize;
	let positive = name == "RateOfChange";
	let mut p = Proc::new(c.seed, c.regime, positive);
	p.plain = c.plain;
	let x0 = p.next();
	let params = MParams::Len(c.n as u64);
	let mut m = (kind.make)(&params, &In::V(x0)).map_err(|e| Failure::new(format!("C07:{name}:ctor"), format!("{e:?}")))?;
	let spec = c02::specs().into_iter().find(|s| s.name == name);
	let exact = kind.nature == Nature::Exact;
	let ring_len = 2 * n + 4;
	let mut ring: Vec<f64> = Vec::with_capacity(ring_len * 2);
	let cps = checkpoints(c.steps, n as u64);
	let mut cp_i = 0usize;
	let mut mmax = x0.abs();
	let mut fresh: Option<(Box<dyn dynm::DynMethod>, u64)> = None;
	let mut late_checked = 0u64;
	let mut lr = 0.0f64;
	let mut x = x0;
	for t in 0..c.steps {
		if t > 0 {
			x = p.next();
		}
		mmax = mmax.max(x.abs());
		ring.push(x);
		if ring.len() >= 2 * ring_len {
			ring.drain(..ring_len);
		}
		let o = m.next(&In::V(x));
		// (iii) a fresh instance primed with the last window must agree with the veteran
		if let Some((f, since)) = fresh.as_mut() {
			let of = f.next(&In::V(x));
			if exact {
				ensure!(of.same_bits(&o), &format!("C07:{name}:fresh-vs-veteran"), "{name}({n}) step {t}: instance with a long past returns {:?}, a fresh instance primed {} steps ago with the last window returns {:?}", o, t - *since, of);
			} else if let (Some(a), Some(b)) = (o.floats(), of.floats()) {
				let tol = allow(n, t as usize, mmax, 8.0 * if matches!(name, "Integral" | "LinearVolatility") { n as f64 } else { 1.0 });
				let ok = if name == "StDev" {
					(a[0] * a[0] - b[0] * b[0]).abs() <= tol * mmax
				} else if name == "CCI" {
					// (x - mean) / MAD: the residue of the running mean (proportional to the largest value of the
					// whole history) is divided by the CURRENT mean absolute deviation
					let have = ring.len();
					let mad = if have >= n { crate::refm::win::mean_abs_dev(&ring[have - n..]) } else { 0.0 };
					mad <= 4.0 * tol || (a[0] - b[0]).abs() <= 4.0 * tol * (1.0 + a[0].abs()) / mad
				} else if name == "RateOfChange" {
					(a[0] - b[0]).abs() <= 1e-6 * (1.0 + a[0].abs())
				} else {
					(a[0] - b[0]).abs() <= tol
				};
				if !ok {
					let quad = allow(n, t as usize, mmax, 8.0) * (n as f64 + t as f64);
					let within = (a[0] - b[0]).abs() <= quad;
					let sig = if within && matches!(name, "WMA" | "LinReg" | "SWMA" | "HMA") { format!("C07:double-accumulator-drift:{name}") } else { format!("C07:{name}:fresh-vs-veteran:{}", if within { "drift-within-quadratic-bound" } else { "beyond-quadratic-bound" }) };
					fail!(&sig, "{name}({n}) step {t}: instance with a long past returns {:e}, a fresh instance primed with the last window returns {:e} (allowance {:e})", a[0], b[0], tol);
				}
			}
		}
		let t_us = t as usize;
		let have = ring.len();
		if have < n + 2 {
			continue;
		}
		// (i) exact kinds: definitional comparison on dense late bands
		if exact && t as usize >= n && is_exact_step(t, c.steps, n as u64) {
			if let Some(e) = exact_ref(name, &ring[have - n..]) {
				let ok = match (&o, &e) {
					(Out::V(a), Out::V(b)) => (*a as f64) == (*b as f64),
					_ => o.same_bits(&e),
				};
				ensure!(ok, &format!("C07:{name}:exact-late"), "{name}({n}) step {t}: {:?} expected {:?}", o, e);
				if t > 4 * 256 {
					late_checked += 1;
				}
			}
		}
		// (ii) arithmetic kinds: from-scratch formula at checkpoints and over the last 3n steps
		let at_cp = cp_i < cps.len() && cps[cp_i] == t;
		if at_cp {
			cp_i += 1;
		}
		if !exact && (at_cp || t + 3 * n as u64 >= c.steps) && have >= ring_len - 1 {
			if let Some(s) = &spec {
				let xs = &ring[..];
				let aux = (s.prep)(xs, xs[0], n);
				let got = o.floats().map(|f| f[0]).unwrap_or(f64::NAN);
				match (s.expect)(xs, xs[0], have - 1, n, mmax, &aux) {
					Exp::Val(e, _) => {
						// the allowance is evaluated at the true position t of the stream
						let g = match name {
							"HMA" => 6.0,
							"LinReg" => 4.0,
							"TRIMA" | "MeanAbsDev" | "MedianAbsDev" => 2.0,
							"Integral" | "LinearVolatility" => n as f64,
							_ => 1.0,
						};
						let tol = match name {
							"Momentum" | "Past" | "Derivative" | "RateOfChange" => 8.0 * eps() * (mmax + e.abs() + 1.0),
							"CCI" => f64::INFINITY,
							_ => allow(n, t_us, mmax, g),
						};
						let d = (got - e).abs();
						st.ratio(d / tol);
						if d / tol > lr {
							lr = d / tol;
							if std::env::var("VERIF_PRINT_RATIO").is_ok() {
								eprintln!("  ratio {:.3} at t={} got={:e} exp={:e} tol={:e} mmax={:e}", lr, t, got, e, tol, mmax);
							}
						}
						if d > tol {
							let quad = tol * (n as f64 + t as f64);
							// WMA-type updates keep two coupled accumulators (a running sum feeding a running weighted sum):
							// their error grows like t^1.5, i.e. faster than any allowance linear in t
							let sig = if d <= quad && matches!(name, "WMA" | "LinReg" | "SWMA" | "HMA") { format!("C07:double-accumulator-drift:{name}") } else if d <= quad { format!("C07:{name}:late-value:drift-within-quadratic-bound") } else { format!("C07:{name}:late-value:beyond-quadratic-bound") };
							fail!(&sig, "{name}({n}) step {t}: got {:e} expected {:e} from the last {n} inputs (|diff| {:e} > allowance {:e})", got, e, d, tol);
						}
					}
					Exp::Sq(var, _) => {
						let tol = allow(n, t_us, mmax * mmax, 1.0);
						let d = (got * got - var).abs();
						st.ratio(d / tol);
						ensure!(got >= 0.0 && d <= tol, &format!("C07:{name}:late-value"), "{name}({n}) step {t}: got {:e}, variance of the last {n} inputs {:e} (|diff| {:e} > allowance {:e})", got, var, d, tol);
					}
					Exp::Exempt => {}
				}
				if t > 4 * 256 {
					late_checked += 1;
				}
			}
		}
		// start a fresh twin at some checkpoints (finite-window kinds only)
		if at_cp && t > 2 * 256 && fresh.is_none() && !matches!(name, "Integral" if n == 0) && have >= ring_len {
			let m_len = if matches!(name, "TRIMA" | "HMA") { 2 * n } else { n + 1 };
			let tail = &ring[have - m_len..];
			let mut f = (kind.make)(&params, &In::V(tail[0])).map_err(|e| Failure::new(format!("C07:{name}:ctor"), format!("{e:?}")))?;
			for v in tail {
				f.next(&In::V(*v));
			}
			fresh = Some((f, t));
		}
	}
	if std::env::var("VERIF_PRINT_RATIO").is_ok() {
		eprintln!("RATIO {} n={} seed={} regime={} steps={} max_ratio={:.3}", name, n, c.seed, c.regime, c.steps, lr);
	}
	st.count("steps", c.steps);
	st.count("late_checkpoints", late_checked);
	if late_checked > 0 && p.regime_changes >= 2 {
		st.nontrivial(engine::fnv(format!("{:?}", c).as_bytes()));
	}
	st.class(name);
	st.sample(name, || serde_json::to_value(c).unwrap());
	Ok(())
}

// ---------------------------------------------------------------------------------------
// reversal detectors on long streams (exact, every step)

#[derive(Serialize, Deserialize, Clone, Debug)]
pub struct LongRev {
	pub left: u32,
	pub right: u32,
	pub seed: u64,
	pub steps: u64,
}

fn run_long_rev(c: &LongRev, st: &mut Stats) -> CaseResult {
	let mut p = Proc::new(c.seed, 40, false);
	let len = (c.left + c.right + 1) as usize;
	let right = c.right as usize;
	let x0 = p.next();
	let mut up = UpperReversalSignal::new(c.left as PeriodType, c.right as PeriodType, &(x0 as ValueType)).map_err(|e| Failure::new("C07:reversal:ctor", format!("{e:?}")))?;
	let mut lo = LowerReversalSignal::new(c.left as PeriodType, c.right as PeriodType, &(x0 as ValueType)).map_err(|e| Failure::new("C07:reversal:ctor", format!("{e:?}")))?;
	let mut ring: Vec<f64> = Vec::new();
	let mut x = x0;
	let mut fired_late = 0u64;
	for t in 0..c.steps {
		if t > 0 {
			x = p.next();
			// make ties and pivots frequent
			x = (x * 4.0).round() / 4.0;
		}
		ring.push(x);
		if ring.len() >= 4 * len {
			ring.drain(..2 * len);
		}
		let gu = up.next(&(x as ValueType)).analog();
		let gl = lo.next(&(x as ValueType)).analog();
		if (t as usize) < len {
			continue;
		}
		let w = &ring[ring.len() - len..];
		let piv = len - 1 - right;
		let eu = sel::newest_argmax_age(w) == right;
		let el = sel::newest_argmin_age(w) == right;
		let _ = piv;
		ensure!((gu > 0) == eu, "C07:upper-reversal:late", "UpperReversalSignal({},{}) step {t}: {} expected {}", c.left, c.right, gu, eu as i8);
		ensure!((gl > 0) == el, "C07:lower-reversal:late", "LowerReversalSignal({},{}) step {t}: {} expected {}", c.left, c.right, gl, el as i8);
		if (eu || el) && t > 4 * 256 {
			fired_late += 1;
		}
	}
	st.count("steps", c.steps);
	st.count("late_reversals", fired_late);
	if fired_late > 0 {
		st.nontrivial(engine::fnv(format!("{:?}", c).as_bytes()));
	}
	st.sample("reversal", || serde_json::to_value(c).unwrap());
	Ok(())
}

// ---------------------------------------------------------------------------------------
// indicators: a veteran instance versus a fresh one primed with the recent candles

#[derive(Serialize, Deserialize, Clone, Debug)]
pub struct LongInd {
	pub cfg: CfgCase,
	pub seed: u64,
	pub steps: u64,
}

pub fn candle_of_pub(p: &mut Proc, prev: f64, i: u64) -> C5 { candle_of(p, prev, i) }
fn candle_of(p: &mut Proc, prev: f64, i: u64) -> C5 {
	let c = p.next().abs().max(1e-3);
	let r = engine::mix(i, 0x77);
	let (up, dn) = (((r >> 8) % 100) as f64 * 1e-4, ((r >> 20) % 100) as f64 * 1e-4);
	let flat = c == prev;
	let o = prev;
	let h = gen::vt(o.max(c) * if flat { 1.0 } else { 1.0 + up });
	let l = gen::vt(o.min(c) * if flat { 1.0 } else { 1.0 - dn });
	C5 { o, h: h.max(o.max(c)), l: l.min(o.min(c)), c, v: if (r >> 40) % 7 == 0 { 0.0 } else { ((r >> 44) % 10_000) as f64 } }
}

fn run_long_ind(c: &LongInd, st: &mut Stats) -> CaseResult {
	let cfg = cfggen::instantiate(&c.cfg).map_err(|e| Failure::new("C07:generator", format!("{}: {e}", c.cfg.name)))?;
	let name = c.cfg.name.as_str();
	let cj = cfg.to_json();
	let pmax = cfggen::max_period(&cj).max(2) as usize;
	let mut p = Proc::new(c.seed, 50, true);
	let first = candle_of(&mut p, 100.0, 0);
	let mut vet = cfg.init(&first.candle()).map_err(|e| Failure::new(format!("C07:{name}:init"), format!("{cj}: {e:?}")))?;
	let mut recent: Vec<C5> = Vec::new();
	let mut prev = first.c;
	let keep = 3 * pmax + 8;
	let mut fresh: Option<Box<dyn crate::dyni::DynInd>> = None;
	let start_fresh_at = c.steps.saturating_sub((keep as u64) * 4).max(1);
	let mut compared = 0u64;
	let mut mprice = first.h;
	for t in 0..c.steps {
		let cd = if t == 0 { first } else { candle_of(&mut p, prev, t) };
		prev = cd.c;
		mprice = mprice.max(cd.h);
		recent.push(cd);
		if recent.len() > 2 * keep {
			recent.drain(..keep);
		}
		let rv = vet.next(&cd.candle());
		// ChaikinMoneyFlow is undefined while the total volume of its window is exactly zero
		let undefined = name == "ChaikinMoneyFlow" && {
			let sz = cj["size"].as_u64().unwrap_or(1) as usize;
			recent.iter().rev().take(sz).all(|k| k.v == 0.0) && recent.len() >= sz
		};
		if undefined {
			if let Some(f) = fresh.as_mut() {
				f.next(&cd.candle());
			}
			st.count("exempt_undefined_steps", 1);
			continue;
		}
		for (i, v) in rv.values().iter().enumerate() {
			ensure!((*v as f64).is_finite(), &format!("C07:{name}:non-finite:{i}"), "{name} {cj} step {t}: value #{i} = {:?}", v);
		}
		if name == "ParabolicSAR" {
			let (sar, trend) = (rv.values()[0] as f64, rv.values()[1] as f64);
			ensure!(if trend > 0.0 { sar <= cd.l } else { sar >= cd.h }, "C07:ParabolicSAR:side-late", "ParabolicSAR step {t}: sar {:e} trend {} candle {:?}", sar, trend, cd);
		}
		if t == start_fresh_at && recent.len() >= keep {
			let tail = &recent[recent.len() - keep..];
			let mut f = cfg.init(&tail[0].candle()).map_err(|e| Failure::new(format!("C07:{name}:init"), format!("{e:?}")))?;
			for k in tail {
				f.next(&k.candle());
			}
			fresh = Some(f);
			continue;
		}
		if let Some(f) = fresh.as_mut().filter(|_| name != "ParabolicSAR") {
			// (the parabolic SAR carries its trend state for ever: only its invariants are checked late)
			let rf = f.next(&cd.candle());
			// finite-memory indicators: the veteran must agree with the primed twin
			let mut tol = allow(pmax, t as usize, mprice.max(1.0), 16.0);
			if name == "BollingerBands" {
				// the deviation is the square root of a variance that is accurate to eps * M^2
				tol += cj["sigma"].as_f64().unwrap_or(1.0).abs() * (2.0 * allow(pmax, t as usize, mprice * mprice, 1.0)).sqrt();
			}
			if name == "ChaikinMoneyFlow" {
				let sz = cj["size"].as_u64().unwrap_or(1) as usize;
				let vol: f64 = recent.iter().rev().take(sz).map(|k| k.v).sum();
				tol += 2.0 * allow(sz, t as usize, 10_000.0, sz as f64) / vol;
			}
			if matches!(name, "RelativeStrengthIndex" | "ChandeMomentumOscillator" | "CommodityChannelIndex") {
				// ratios of averaged price changes (deviations): the residue of the running sums is proportional to the
				// largest price of the whole history, the ratio's error to that residue over the CURRENT average change
				let src = |k: &C5| match cj["source"].as_str().unwrap_or("close") {
					"open" => k.o,
					"high" => k.h,
					"low" => k.l,
					"hl2" => (k.h + k.l) * 0.5,
					"tp" => (k.h + k.l + k.c) / 3.0,
					_ => k.c,
				};
				let w: Vec<f64> = recent[recent.len().saturating_sub(pmax + 1)..].iter().map(src).collect();
				let scale = if name == "CommodityChannelIndex" {
					crate::refm::win::mean_abs_dev(&w[w.len().saturating_sub(pmax)..])
				} else {
					w.windows(2).map(|p| (p[1] - p[0]).abs()).sum::<f64>() / pmax as f64
				};
				let a = allow(pmax, t as usize, 2.0 * mprice, 2.0);
				if scale > 4.0 * a {
					tol += 4.0 * a / scale * (1.0 + rv.values()[0].abs() as f64);
				} else if scale > 0.0 {
					// the current average change is below the resolution left by the history: ill-conditioned
					st.count("ill_conditioned_ratio_steps", 1);
					tol = f64::INFINITY;
				}
				// (scale == 0: an exactly flat window, where the documented value is a definite constant)
			}
			for (i, (a, b)) in rv.values().iter().zip(rf.values().iter()).enumerate() {
				let (a, b) = (*a as f64, *b as f64);
				let ok = a == b || (a - b).abs() <= tol || (a - b).abs() <= 1e-6 * (1.0 + a.abs().max(b.abs()));
				// RSI averages gains and losses with a configurable (here: window-type) average and tests the results
				// for exact zero: on a window without any price change the true averages are 0, the computed ones are
				// 0 or a rounding residue, in the veteran and in the twin alike
				let srcv = |k: &C5| match cj["source"].as_str().unwrap_or("close") {
					"open" => k.o,
					"high" => k.h,
					"low" => k.l,
					"hl2" => (k.h + k.l) * 0.5,
					"tp" => (k.h + k.l + k.c) / 3.0,
					_ => k.c,
				};
				let flat_window = recent.len() > pmax && recent[recent.len() - pmax - 1..].windows(2).all(|w| srcv(&w[0]) == srcv(&w[1]));
				let sig = if matches!(name, "RelativeStrengthIndex" | "CommodityChannelIndex") && flat_window { format!("C07:residue-ratio-on-flat-window:{name}:{i}") } else { format!("C07:{name}:fresh-vs-veteran:{i}") };
				ensure!(ok, &sig, "{name} {cj} step {t}: value #{i} of the instance with a long past is {:e}, of a fresh instance primed with the last {} candles {:e} (allowance {:e}, largest price so far {:e})", a, keep, b, tol, mprice);
			}
			compared += 1;
		}
	}
	st.count("steps", c.steps);
	st.count("late_comparisons", compared);
	if compared > 0 {
		st.nontrivial(engine::fnv(format!("{:?}", c).as_bytes()));
	}
	st.sample(name, || serde_json::to_value(c).unwrap());
	Ok(())
}

// ---------------------------------------------------------------------------------------
// every indicator, any averages: late invariants and late signals on long structured streams

#[derive(Serialize, Deserialize, Clone, Debug)]
pub struct LongAny {
	pub cfg: CfgCase,
	pub seed: u64,
	pub steps: u64,
	/// 0: the regime stream of the other long checks; 1..3: persistent trends with a zig-zag (up, down, long saw-tooth);
	/// 4, 5: strictly monotone rise / fall of at least 70 000 bars
	pub shape: u8,
	pub zig_period: u8,
}

/// close of step i of a persistent trend with a zig-zag of period zp (pure function of its arguments)
fn trend_close(shape: u8, zp: u64, steps: u64, i: u64, r: f64) -> f64 {
	let step = 0.05;
	let ph = i % zp;
	let tri = if zp == 2 { if ph == 0 { -1.0 } else { 1.0 } } else { 1.0 - 2.0 * (ph as f64 / (zp - 1) as f64) };
	if shape >= 4 {
		// strictly monotone: every bar makes a new extreme, nothing ever pulls back (a trend-following state such
		// as the parabolic SAR's count of new extremes is never reset)
		let up = shape == 4;
		let k = if up { i } else { steps - i };
		return gen::vt(100.0 + step * k as f64 + step * 0.25 * r * if up { 1.0 } else { -1.0 });
	}
	let level = match shape {
		1 => 100.0 + step * i as f64,
		2 => 100.0 + step * (steps - i) as f64,
		_ => {
			let half = 20_000u64;
			let k = i % (2 * half);
			100.0 + step * (if k < half { k } else { 2 * half - k }) as f64
		}
	};
	gen::vt(level + step * (0.6 * tri + 0.1 * (r - 0.5)))
}

fn run_long_any(c: &LongAny, st: &mut Stats) -> CaseResult {
	let cfg = cfggen::instantiate(&c.cfg).map_err(|e| Failure::new("C07:generator", format!("{}: {e}", c.cfg.name)))?;
	let name = c.cfg.name.as_str();
	let cj = cfg.to_json();
	let pmax = cfggen::max_period(&cj).max(2) as usize;
	let mut p = Proc::new(c.seed, 50, true);
	let zp = c.zig_period.clamp(2, 5) as u64;
	let mut prev = 100.0;
	let mut next_candle = |p: &mut Proc, prev: f64, t: u64| -> C5 {
		if c.shape == 0 {
			return candle_of(p, prev, t);
		}
		let r = engine::mix(c.seed, t);
		let cl = trend_close(c.shape, zp, c.steps, t, (r >> 11) as f64 / (1u64 << 53) as f64);
		let o = if t == 0 { cl } else { prev };
		let w = match (r >> 3) % 3 {
			0 => 0.0,
			// (steady shapes: wicks far smaller than one step, so that no bar reaches back to a trailing stop)
			_ if c.shape >= 4 => cl * 1e-7,
			1 => cl * 1e-4,
			_ => cl * 1e-3,
		};
		let (h, l) = (gen::vt(o.max(cl) + w).max(o.max(cl)), gen::vt(o.min(cl) - w).min(o.min(cl)));
		C5 { o, h, l, c: cl, v: if (r >> 40) % 7 == 0 { 0.0 } else { ((r >> 44) % 10_000) as f64 } }
	};
	let first = next_candle(&mut p, prev, 0);
	let mut inst = cfg.init(&first.candle()).map_err(|e| Failure::new(format!("C07:{name}:init"), format!("{cj}: {e:?}")))?;
	let mut sig = crate::props::c06::SigRef::new(name, &cj, &first);
	// (two indicators implement another rule than documented: known C06 findings, their signals are not judged here)
	let judge_signals = !matches!(name, "PivotReversalStrategy" | "TrendStrengthIndex" | "DetrendedPriceOscillator");
	let keep = 3 * pmax + 8;
	let mut recent: Vec<C5> = Vec::new();
	let (mut m, mut mv) = (first.h, first.v);
	let mut fired = vec![(0u32, 0u32); 4];
	let mut late_fired = 0u64;
	for t in 0..c.steps {
		let cd = if t == 0 { first } else { next_candle(&mut p, prev, t) };
		prev = cd.c;
		m = m.max(cd.h);
		mv = mv.max(cd.v);
		recent.push(cd);
		if recent.len() > 2 * keep {
			recent.drain(..keep);
		}
		let r = inst.next(&cd.candle());
		let vals: Vec<f64> = r.values().iter().map(|x| *x as f64).collect();
		// documented ranges and orderings, at every step however late (the allowance knows the true age)
		crate::props::c12::check_step_at(name, &cj, &recent, recent.len() - 1, t as usize, m, mv, &vals, st).map_err(|f| Failure::new(format!("C07:late-invariant:{}", f.sig), format!("after {t} candles: {}", f.msg)))?;
		if judge_signals {
			let before: u32 = fired.iter().map(|f| f.0 + f.1).sum();
			crate::props::c06::check_signals(name, &mut sig, &cd, &vals, r.signals(), t as usize, &cj, st, &mut fired).map_err(|f| Failure::new(format!("C07:late-signal:{}", f.sig), format!("after {t} candles: {}", f.msg)))?;
			let after: u32 = fired.iter().map(|f| f.0 + f.1).sum();
			if t > 1024 && after > before {
				late_fired += 1;
			}
		}
	}
	st.count("steps", c.steps);
	st.count("late_signals", late_fired);
	if c.steps > 1024 {
		st.nontrivial(engine::fnv(format!("{:?}", c).as_bytes()));
	}
	st.class(if c.shape == 0 { "regimes" } else { "persistent trend with zig-zag" });
	st.sample(&format!("any/{name}"), || serde_json::to_value(c).unwrap());
	Ok(())
}

/// indicators whose state is a finite window of the candle history (no recursive averages)
fn finite_memory_cfg(name: &'static str) -> impl Strategy<Value = CfgCase> {
	cfggen::config_strategy(name, GenOpts { wide: false, price_sources: true, nonneg_ma: false }).prop_map(move |mut c| {
		// window-type averages only: SMA / WMA / SWMA / TRIMA / SMM keep no memory beyond their window
		fn fix(v: &mut serde_json::Value) {
			if let serde_json::Value::Object(m) = v {
				let keys: Vec<String> = m.keys().cloned().collect();
				for k in keys {
					if cfggen::MA_JSON.contains(&k.as_str()) {
						if !matches!(k.as_str(), "sma" | "wma" | "swma" | "trima" | "smm") {
							let len = m.remove(&k).unwrap();
							m.insert("sma".to_string(), len);
						}
					} else if let Some(x) = m.get_mut(&k) {
						fix(x);
					}
				}
			}
		}
		if c.cfg.is_null() {
			// the default configuration, made explicit so that its averages can be replaced as well
			if let Some(k) = crate::dyni::kind(name) {
				c.cfg = (k.default)().to_json();
			}
		}
		fix(&mut c.cfg);
		c
	})
}

pub fn def(tier: Tier) -> PropertyDef {
	let mut checks: Vec<Box<dyn SubCheck>> = Vec::new();
	let steps = tier.pick(300_000u64, 10_000_000);
	let lens: Vec<u32> = vec![1, 2, 3, 5, 14, 100, 254];
	let finite = ["SMA", "WMA", "SWMA", "TRIMA", "HMA", "LinReg", "Integral", "Derivative", "Momentum", "RateOfChange", "Past", "StDev", "MeanAbsDev", "MedianAbsDev", "CCI", "LinearVolatility", "Highest", "Lowest", "HighestLowestDelta", "HighestIndex", "LowestIndex", "SMM"];
	for name in finite {
		let kind = dynm::kind(name).unwrap();
		let min = match kind.params {
			dynm::ParamKind::Len(min, _) => min.max(1),
			_ => 1,
		};
		let ls: Vec<u32> = lens.iter().copied().filter(|l| *l >= min).collect();
		let strat = (proptest::sample::select(ls), any::<u64>(), 1u32..400, 0u8..4).prop_map(move |(n, seed, regime, pl)| LongCase { kind: name.to_string(), n, seed, steps, regime: regime * 8, plain: pl == 0 });
		checks.push(pt(&format!("long_{name}"), tier.pick(8, 10), strat, run_long));
	}
	// very long histories for the O(1) single-accumulator and selection methods also in the quick tier: a
	// correction that is applied every 2^16 steps needs a few dozen periods before it leaves the allowance
	let very_long = tier.pick(4_000_000u64, 30_000_000);
	for name in ["SMA", "TRIMA", "StDev", "Integral", "LinearVolatility", "Momentum", "Derivative", "RateOfChange", "Past", "Highest", "Lowest", "HighestLowestDelta", "HighestIndex", "LowestIndex"] {
		let kind = dynm::kind(name).unwrap();
		let min = match kind.params {
			dynm::ParamKind::Len(min, _) => min.max(1),
			_ => 1,
		};
		let ls: Vec<u32> = [2u32, 3, 5, 14].iter().copied().filter(|l| *l >= min).collect();
		let strat = (proptest::sample::select(ls), any::<u64>(), 1u32..400, 0u8..4).prop_map(move |(n, seed, regime, pl)| LongCase { kind: name.to_string(), n, seed, steps: very_long, regime: regime * 8, plain: pl == 0 });
		checks.push(pt(&format!("very_long_{name}"), tier.pick(2, 3), strat, run_long));
	}
	let rev = (prop_oneof![(1u32..=3, 1u32..=3), (1u32..=30, 1u32..=30), Just((126u32, 127u32))], any::<u64>()).prop_map(move |((left, right), seed)| LongRev { left, right, seed, steps: steps / 3 });
	for i in 0..4 {
		checks.push(pt(&format!("long_reversal_{i}"), tier.pick(6, 6), rev.clone(), run_long_rev));
	}
	// indicators whose state the property names, plus the other finite-memory ones
	for name in ["ChandeMomentumOscillator", "MoneyFlowIndex", "RelativeStrengthIndex", "ParabolicSAR", "Aroon", "BollingerBands", "ChaikinMoneyFlow", "DonchianChannel", "IchimokuCloud", "CommodityChannelIndex", "PriceChannelStrategy", "MomentumIndex", "StochasticOscillator"] {
		let strat = (finite_memory_cfg(name), any::<u64>()).prop_map(move |(cfg, seed)| LongInd { cfg, seed, steps: steps / 4 });
		checks.push(pt(&format!("long_indicator_{name}"), tier.pick(6, 8), strat, run_long_ind));
	}
	// every indicator with any averages: invariants and signals at every step of long structured streams
	for name in cfggen::NAMES {
		let opts = GenOpts { wide: false, price_sources: true, nonneg_ma: matches!(name, "RelativeStrengthIndex" | "StochasticOscillator" | "SMIErgodicIndicator" | "Envelopes") };
		let st = tier.pick(steps / 10, steps / 25);
		// steady shapes (4, 5) run past 2^16 bars in both tiers
		let strat = (cfggen::config_strategy(name, opts), any::<u64>(), 0u8..6, 2u8..=5).prop_map(move |(cfg, seed, shape, zig_period)| LongAny { cfg, seed, steps: if shape >= 4 { st.max(70_000) } else { st }, shape, zig_period });
		checks.push(pt(&format!("long_any_{name}"), tier.pick(9, 12), strat, run_long_any));
	}
	PropertyDef {
		id: "C07",
		level: "exploration",
		rule: "Procedural streams (pure function of a (seed, regime) record; regimes: random walk, exactly flat, 10^+-k scale jump, monotone drift, integer lattice, sign flip) of 3*10^5 (thorough 10^7) steps for every finite-window and selection method at lengths {1,2,3,5,14,100,254}, 10^5 (3.3*10^6) steps for the reversal detectors, 7.5*10^4 (2.5*10^6) candles for the finite-memory indicators (CMO, MFI, RSI, SAR named by the property and nine others) with window-type averages. (sub-checks very_long_*: 4*10^6 (thorough 3*10^7) steps for the O(1) single-accumulator and selection methods at lengths {2,3,5,14}.) Oracles: (i) selections/positions/reversals compared EXACTLY with the from-scratch definition on a ring of recent inputs - every step of the first 2*256+n, bands around every multiple of 2^8 and 2^16, every 997th step, the last 1000 steps (reversals: every step); (ii) arithmetic outputs against the from-scratch formula at geometrically spaced checkpoints and over the last 3n steps, allowance K*eps*(n+t)*M_t*g; (iii) a fresh instance primed with the last window (2n for TRIMA/HMA; 3*max_period+8 candles for indicators) must agree with the veteran from then on. (iv) every one of the 37 indicators with generated configurations (any average kind) on streams of 3*10^4 (thorough 4*10^5) candles - the regime stream, a persistent up / down / saw-tooth trend carrying a zig-zag of period 2..5, or a strictly monotone rise / fall of >= 7*10^4 bars (every bar a new extreme), which keep oscillators on one side of zero while run, peak and bars-since counters keep counting: at EVERY step the documented ranges and orderings (C12 predicates, allowance for the true age) and every signal recomputed from the returned values (C06 detectors, exact). Non-trivial = a case with at least one late comparison (t > 1024) after >= 2 regime changes; for (iv) a stream longer than 1024 candles.",
		assumptions: vec!["K = 256; a failure of (ii)/(iii) is classified by whether it stays inside the quadratic worst-case bound of a double accumulator (known-finding class for WMA-type drift) or not".into()],
		exhaustive: false,
		checks,
	}
}
