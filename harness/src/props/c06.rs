//! C06 — indicator signals fire exactly under their documented conditions.
//!
//! Every signal is recomputed, at every step, from the indicator's OWN returned values, the
//! candle and the configuration with definitional detectors (crossings, reversals, latches,
//! counters) that share no code with yata::methods. Because the rule is applied to the very
//! values the implementation returned, there is no rounding ambiguity except where a rule
//! needs a quantity that is not returned (those comparisons are tri-state).

use crate::approx::{allow, eps};
use crate::cfggen::{self, CfgCase, GenOpts};
use crate::engine::{self, pt, CaseResult, Failure, PropertyDef, Stats, SubCheck, Tier};
use crate::gen::{self, CandleStream, C5};
use crate::refm::win;
use proptest::prelude::*;
use serde::{Deserialize, Serialize};
use serde_json::Value;
use yata::core::{Action, Source, ValueType, OHLCV};

// --------------------------------------------------------------------------------------
// definitional detectors

#[derive(Clone, Copy, Default)]
pub struct XAbove(pub f64);
impl XAbove {
	pub fn next(&mut self, a: f64, b: f64) -> bool {
		let d = gen::vt(a - b);
		let r = self.0 < 0.0 && d >= 0.0;
		self.0 = d;
		r
	}
}
#[derive(Clone, Copy, Default)]
pub struct XUnder(pub f64);
impl XUnder {
	pub fn next(&mut self, a: f64, b: f64) -> bool {
		let d = gen::vt(a - b);
		let r = self.0 > 0.0 && d <= 0.0;
		self.0 = d;
		r
	}
}
#[derive(Clone, Copy, Default)]
pub struct X(pub XAbove, pub XUnder);
impl X {
	pub fn seeded(a: f64, b: f64) -> Self {
		X(XAbove(gen::vt(a - b)), XUnder(gen::vt(a - b)))
	}
	/// +1 crossed upwards, -1 downwards, 0 none
	pub fn next(&mut self, a: f64, b: f64) -> i8 {
		self.0.next(a, b) as i8 - self.1.next(a, b) as i8
	}
}

/// reversal detector over the whole history (prehistory = seed)
pub struct Rev {
	left: usize,
	right: usize,
	seed: f64,
	hist: Vec<f64>,
}
impl Rev {
	pub fn new(left: u64, right: u64, seed: f64) -> Self {
		Self { left: left as usize, right: right as usize, seed, hist: Vec::new() }
	}
	fn pivot(&self, upper: bool) -> bool {
		let t = self.hist.len() - 1;
		if t < self.right {
			return false;
		}
		let len = self.left + self.right + 1;
		// the construction value counts as position 0 holding max(seed, x0) for the upper detector
		// (min for the lower one): the implementation keeps it as the initial extremum at index 0
		let at = |pos: i64| -> f64 {
			if pos < 0 {
				self.seed
			} else if pos == 0 {
				if upper { self.hist[0].max(self.seed) } else { self.hist[0].min(self.seed) }
			} else {
				self.hist[pos as usize]
			}
		};
		let mut best_pos = t as i64;
		let mut best = at(t as i64);
		for age in 1..len {
			let pos = t as i64 - age as i64;
			if pos < 0 {
				break;
			}
			let v = at(pos);
			if if upper { v > best } else { v < best } {
				best = v;
				best_pos = pos;
			}
		}
		best_pos == t as i64 - self.right as i64
	}
	/// (upper pivot fired, lower pivot fired)
	pub fn next(&mut self, x: f64) -> (bool, bool) {
		self.hist.push(x);
		if self.hist.len() > 4 * (self.left + self.right + 2) + 64 && false {
			// (history is kept whole: positions are absolute)
		}
		(self.pivot(true), self.pivot(false))
	}
	/// ReversalSignal = lower - upper: +1, -1, 0; both cannot happen
	pub fn signal(&mut self, x: f64) -> i8 {
		let (u, l) = self.next(x);
		l as i8 - u as i8
	}
}

/// independent float -> strength conversion
pub fn act_from(x: f64) -> Action {
	if x.is_nan() {
		return Action::None;
	}
	let c = x.clamp(-1.0, 1.0);
	let k = (c.abs() * 255.0).round() as u8;
	if c.is_sign_negative() {
		Action::Sell(k)
	} else {
		Action::Buy(k)
	}
}
/// difference of two full signals in the Action algebra: both present gives a zero-strength signal, not None
pub fn act_sub(a: bool, b: bool) -> Exp {
	Exp::Is(match (a, b) {
		(true, false) => Action::BUY_ALL,
		(false, true) => Action::SELL_ALL,
		(true, true) => Action::Buy(0),
		(false, false) => Action::None,
	})
}
pub fn act_i(s: i8) -> Action {
	match s.signum() {
		1 => Action::BUY_ALL,
		-1 => Action::SELL_ALL,
		_ => Action::None,
	}
}

#[derive(Clone, Debug)]
pub enum Exp {
	Is(Action),
	/// proportional signal computed from a recomputed float: neighbours are admissible at a rounding boundary
	Near(f64),
	/// the deciding comparison is within the rounding allowance of its threshold
	Ambiguous,
	/// documented rule and implemented rule disagree by design of the implementation (deviation model)
	Documented { doc: Action, deviation: Action },
}

fn same(a: Action, b: Action) -> bool {
	a == b && a.is_none() == b.is_none()
}

pub struct SigRef {
	name: String,
	cj: Value,
	t: usize,
	x: Vec<X>,
	xa: Vec<XAbove>,
	xu: Vec<XUnder>,
	rev: Vec<Rev>,
	f: Vec<f64>,
	i: Vec<i64>,
	hist: Vec<Vec<f64>>,
	candles: Vec<C5>,
	last_action: Action,
}

fn src_of(c: &C5, cj: &Value, key: &str) -> f64 {
	let s: Source = cj[key].as_str().unwrap_or("close").parse().unwrap_or(Source::Close);
	c.candle().source(s) as f64
}
fn fz(cj: &Value, k: &str) -> f64 {
	// configuration floats as the implementation holds them
	(cj[k].as_f64().unwrap_or(0.0) as ValueType) as f64
}
fn uz(cj: &Value, k: &str) -> u64 {
	cj[k].as_u64().unwrap_or(0)
}

impl SigRef {
	pub fn new(name: &str, cj: &Value, first: &C5) -> Self {
		let mut s = Self { name: name.to_string(), cj: cj.clone(), t: 0, x: vec![], xa: vec![], xu: vec![], rev: vec![], f: vec![0.0; 8], i: vec![0; 8], hist: vec![vec![]; 4], candles: vec![], last_action: Action::None };
		let z = fz(cj, "zone");
		match name {
			"Aroon" | "ChaikinMoneyFlow" | "ChaikinOscillator" | "EldersForceIndex" | "KnowSureThing" => s.x = vec![X::default()],
			"EaseOfMovement" => s.x = vec![X::seeded(0.0, 0.0)],
			"AwesomeOscillator" => {
				s.x = vec![X::default()];
				s.rev = vec![Rev::new(uz(cj, "left"), uz(cj, "right"), 0.0)];
			}
			"ChandeKrollStop" => {
				let x = fz(cj, "x");
				let tr = first.h - first.l;
				let (sl, ss) = (gen::vt(x.mul_add(tr, first.l)), gen::vt(x.mul_add(-tr, first.h)));
				s.xa = vec![XAbove(gen::vt(sl - ss))];
				s.f[0] = ss;
				s.f[1] = sl;
			}
			"ChandeMomentumOscillator" | "KeltnerChannel" | "TrueStrengthIndex" => {
				s.xa = vec![XAbove::default()];
				s.xu = vec![XUnder::default()];
				s.x = vec![X::default(), X::default()];
			}
			"CoppockCurve" => {
				s.x = vec![X::default(), X::default()];
				s.rev = vec![Rev::new(uz(cj, "s2_left"), uz(cj, "s2_right"), 0.0)];
			}
			"FisherTransform" | "IchimokuCloud" | "KlingerVolumeOscillator" | "MACD" | "MoneyFlowIndex" => s.x = vec![X::default(), X::default()],
			"HullMovingAverage" => s.rev = vec![Rev::new(uz(cj, "left"), uz(cj, "right"), src_of(first, cj, "source"))],
			"Kaufman" => {
				s.x = vec![X::default()];
				s.f[0] = src_of(first, cj, "source");
			}
			"RelativeStrengthIndex" => s.x = vec![X::seeded(0.5, gen::vt(1.0 - z)), X::seeded(0.5, z)],
			"RelativeVigorIndex" | "SMIErgodicIndicator" | "Example" => s.x = vec![X::default()],
			"StochasticOscillator" => {
				s.x = vec![X::default()];
				s.xa = vec![XAbove::default(), XAbove::default()];
				s.xu = vec![XUnder::default(), XUnder::default()];
			}
			"Trix" => {
				s.x = vec![X::seeded(0.0, 0.0), X::seeded(0.0, 0.0)];
				s.rev = vec![Rev::new(1, 1, 0.0)];
			}
			"TrendStrengthIndex" => {
				s.xu = vec![XUnder(gen::vt(0.0 - z))];
				s.xa = vec![XAbove(gen::vt(0.0 + z))];
				s.rev = vec![Rev::new(1, 2, 0.0)];
				let n = uz(cj, "period") as usize;
				s.hist[0] = vec![src_of(first, cj, "source"); n];
			}
			"WoodiesCCI" => s.x = vec![X::default()],
			"PivotReversalStrategy" => {
				s.rev = vec![Rev::new(uz(cj, "left"), uz(cj, "right"), first.h), Rev::new(uz(cj, "left"), uz(cj, "right"), first.l)];
			}
			_ => {}
		}
		s
	}

	/// expected signals for this step
	pub fn next(&mut self, c: &C5, v: &[f64]) -> Vec<Exp> {
		let cj = self.cj.clone();
		let z = fz(&cj, "zone");
		let t = self.t;
		self.t += 1;
		self.candles.push(*c);
		let is = |b: i8| Exp::Is(act_i(b));
		let out = match self.name.as_str() {
			"Aroon" => {
				let (up, down) = (v[0], v[1]);
				let s0 = self.x[0].next(up, down);
				let s1 = (up == 1.0) as i8 - (down == 1.0) as i8;
				let hi = gen::vt(1.0 - fz(&cj, "signal_zone"));
				let lo = fz(&cj, "signal_zone");
				let (uo, uu, d_o, du) = ((up >= hi) as i64, (up <= lo) as i64, (down >= hi) as i64, (down <= lo) as i64);
				self.i[0] = (self.i[0] + 1) * uo * du;
				self.i[1] = (self.i[1] + 1) * d_o * uu;
				let tv = (self.i[0] - self.i[1]) as f64 / uz(&cj, "over_zone_period") as f64;
				vec![is(s0), is(s1), Exp::Near(tv)]
			}
			"AverageDirectionalIndex" => {
				let (adx, p, m) = (v[0], v[1], v[2]);
				let s0 = (adx > z) as i8 * ((p > m) as i8 - (p < m) as i8);
				vec![is(s0), Exp::Near(gen::vt(p - m))]
			}
			"AwesomeOscillator" => {
				let val = v[0];
				let r = self.rev[0].signal(val);
				let n = uz(&cj, "conseq_peaks") as i64;
				self.i[0] = (self.i[0] + (r > 0) as i64).min(255);
				self.i[1] = (self.i[1] + (r < 0) as i64).min(255);
				let s0 = (r < 0 && self.i[1] >= n) as i8 - (r > 0 && self.i[0] >= n) as i8;
				let s1 = self.x[0].next(val, 0.0);
				self.i[0] *= (val >= 0.0) as i64;
				self.i[1] *= (val <= 0.0) as i64;
				vec![is(s0), is(s1)]
			}
			"BollingerBands" => {
				let (upper, lower) = (v[0], v[2]);
				let src = src_of(c, &cj, "source");
				let range = gen::vt(upper - lower);
				let rel = if range == 0.0 { 0.5 } else { gen::vt(gen::vt(src - lower) / range) };
				vec![Exp::Near(gen::vt(rel.mul_add(2.0, -1.0)))]
			}
			"ChaikinMoneyFlow" | "ChaikinOscillator" | "EaseOfMovement" | "EldersForceIndex" => vec![is(self.x[0].next(v[0], 0.0))],
			"ChandeKrollStop" => {
				let (sl, src, ss) = (v[0], v[1], v[2]);
				let mid = gen::vt(gen::vt(ss + sl) * 0.5);
				let size = gen::vt(mid - sl);
				let val = if size == 0.0 { 0.0 } else { gen::vt(gen::vt(src - mid) / size) };
				let diff = gen::vt(gen::vt(ss - self.f[0]) + gen::vt(sl - self.f[1]));
				let cross = self.xa[0].next(sl, ss) as i8;
				let s2 = cross * (ss < sl) as i8 * ((diff > 0.0) as i8 - (diff < 0.0) as i8);
				self.f[0] = ss;
				self.f[1] = sl;
				vec![Exp::Near(val), is(s2)]
			}
			"ChandeMomentumOscillator" => vec![act_sub(self.xu[0].next(v[0], -z), self.xa[0].next(v[0], z))],
			"CommodityChannelIndex" => {
				let cci = v[0];
				let last = self.f[0];
				let ts = (cci < -z && last >= -z) as i8 - (cci > z && last <= z) as i8;
				let sig = (ts != 0 && self.i[0] != ts as i64) as i8 * ts;
				self.f[0] = cci;
				self.i[0] = sig as i64;
				vec![is(sig)]
			}
			"CoppockCurve" => {
				let s0 = self.x[0].next(v[0], 0.0);
				let s1 = self.rev[0].signal(v[0]);
				let s2 = self.x[1].next(v[0], v[1]);
				vec![is(s0), is(s1), is(s2)]
			}
			"DonchianChannel" => vec![is((c.h >= v[2]) as i8 - (c.l <= v[0]) as i8)],
			"Envelopes" => vec![is((v[2] < v[1]) as i8 - (v[2] > v[0]) as i8)],
			"FisherTransform" => {
				let (cum, sig) = (v[0], v[1]);
				let prev = self.f[0];
				let rev = self.x[0].next(cum, prev);
				let s1 = gen::vt(cum / z) * ((cum < 0.0 && rev > 0) || (cum > 0.0 && rev < 0)) as i8 as f64;
				let cm = self.x[1].next(cum, sig);
				if rev != 0 {
					self.i[0] = rev as i64;
				}
				let lr = self.i[0];
				let s2 = gen::vt(sig / z) * ((sig < 0.0 && lr > 0 && cm > 0) || (sig > 0.0 && lr < 0 && cm < 0)) as i8 as f64;
				self.f[0] = cum;
				vec![Exp::Near(s1), Exp::Near(s2)]
			}
			"HullMovingAverage" => vec![is(self.rev[0].signal(v[0]))],
			"IchimokuCloud" => {
				let (tenkan, kijun, a, b) = (v[0], v[1], v[2], v[3]);
				let src = src_of(c, &cj, "source");
				let c1 = self.x[0].next(tenkan, kijun);
				let c2 = self.x[1].next(src, kijun);
				let (green, red) = (a > b, a < b);
				let s = |cr: i8| (src > a && src > b && green && cr > 0) as i8 - (src < a && src < b && red && cr < 0) as i8;
				vec![is(s(c1)), is(s(c2))]
			}
			"Kaufman" => {
				let val = v[0];
				let src = src_of(c, &cj, "source");
				let cross = self.x[0].next(src, val);
				let fp = uz(&cj, "filter_period") as usize;
				if fp > 1 {
					// StDev of the last fp KAMA values (prehistory = first source value), from scratch
					self.hist[0].push(val);
					let w: Vec<f64> = (0..fp).map(|age| if age + 1 > self.hist[0].len() { self.f[0] } else { self.hist[0][self.hist[0].len() - 1 - age] }).collect();
					let var = win::var_sample(&w);
					let m = self.hist[0].iter().fold(self.f[0].abs(), |m, x| m.max(x.abs()));
					let a = allow(fp, t, m * m, 1.0);
					let k = fz(&cj, "k");
					let (sd_lo, sd_hi) = ((var - a).max(0.0).sqrt() * k, (var + a).sqrt() * k);
					if cross != 0 {
						self.last_action = act_i(cross);
						self.f[1] = val;
						vec![Exp::Is(Action::None)]
					} else if self.last_action.is_some() {
						let d = (val - self.f[1]).abs();
						if d > sd_hi * (1.0 + 8.0 * eps()) {
							let a = self.last_action;
							self.last_action = Action::None;
							vec![Exp::Is(a)]
						} else if d < sd_lo * (1.0 - 8.0 * eps()) || (d == 0.0 && sd_lo == 0.0 && sd_hi == 0.0) {
							vec![Exp::Is(Action::None)]
						} else {
							// the latch may or may not have been released: undecidable from the returned values
							self.i[7] = 1;
							vec![Exp::Ambiguous]
						}
					} else {
						vec![Exp::Is(Action::None)]
					}
				} else {
					vec![is(cross)]
				}
			}
			"KeltnerChannel" => vec![act_sub(self.xu[0].next(v[0], v[2]), self.xa[0].next(v[0], v[1]))],
			"KlingerVolumeOscillator" => vec![is(self.x[0].next(v[0], 0.0)), is(self.x[1].next(v[0], v[1]))],
			"KnowSureThing" => vec![is(self.x[0].next(v[0], v[1]))],
			"MACD" => vec![is(self.x[0].next(v[0], v[1])), is(self.x[1].next(v[0], 0.0))],
			"MomentumIndex" => vec![is((v[0] > 0.0 && v[1] > 0.0) as i8 - (v[0] < 0.0 && v[1] < 0.0) as i8)],
			"MoneyFlowIndex" => {
				let (upper, val, lower) = (v[0], v[1], v[2]);
				let cu = self.x[0].next(val, upper);
				let cl = self.x[1].next(val, lower);
				vec![is((cl < 0) as i8 - (cu > 0) as i8), is((cl > 0) as i8 - (cu < 0) as i8)]
			}
			"ParabolicSAR" => {
				let trend = v[1] as i64;
				let s = (self.i[0] != trend) as i8 * trend as i8;
				self.i[0] = trend;
				vec![is(s)]
			}
			"PivotReversalStrategy" => {
				let (uh, _) = self.rev[0].next(c.h);
				let (_, ll) = self.rev[1].next(c.l);
				let doc = act_i(ll as i8 - uh as i8);
				// deviation model: the implemented entry logic
				let right = uz(&cj, "right") as usize;
				let past = if t >= right { self.candles[t - right] } else { self.candles[0] };
				if uh {
					self.f[0] = past.h;
				}
				let le = (uh || c.h <= self.f[0]) as i8;
				if ll {
					self.f[1] = past.l;
				}
				let se = (ll || c.l >= self.f[1]) as i8;
				vec![Exp::Documented { doc, deviation: act_i(se - le) }]
			}
			"PriceChannelStrategy" => vec![is((c.h >= v[0]) as i8 - (c.l <= v[1]) as i8)],
			"RelativeStrengthIndex" => {
				let oversold = self.x[1].next(v[0], z);
				let overbought = self.x[0].next(v[0], gen::vt(1.0 - z));
				vec![is((oversold < 0) as i8 - (overbought > 0) as i8), is((oversold > 0) as i8 - (overbought < 0) as i8)]
			}
			"RelativeVigorIndex" => {
				let (rvi, sig) = (v[0], v[1]);
				let s1 = self.x[0].next(rvi, sig);
				let s2 = (s1 < 0 && rvi > z && sig > z) as i8 - (s1 > 0 && rvi < -z && sig < -z) as i8;
				vec![is(s1), is(s2)]
			}
			"SMIErgodicIndicator" => {
				let (tsi, sig) = (v[0], v[1]);
				let x = self.x[0].next(tsi, sig);
				vec![is((x > 0 && sig < -z) as i8 - (x < 0 && sig > z) as i8)]
			}
			"StochasticOscillator" => {
				let (f1, f2) = (v[0], v[1]);
				let uzn = gen::vt(1.0 - z);
				let s1 = act_sub(self.xa[0].next(f1, z), self.xu[0].next(f1, uzn));
				let s2 = act_sub(self.xa[1].next(f2, z), self.xu[1].next(f2, uzn));
				let s3 = self.x[0].next(f1, f2);
				vec![s1, s2, is(s3)]
			}
			"Trix" => {
				let s0 = self.rev[0].signal(v[0]);
				let s1 = self.x[0].next(v[0], v[1]);
				let s2 = self.x[1].next(v[0], 0.0);
				vec![is(s0), is(s1), is(s2)]
			}
			"TrendStrengthIndex" => {
				let val = v[0];
				let s0 = act_sub(self.xu[0].next(val, z), self.xa[0].next(val, -z));
				let rev = self.rev[0].signal(val);
				// documented: value beyond the zone and changing direction (polarity as implemented for #1)
				self.hist[1].push(val);
				let ro = uz(&cj, "reverse_offset") as usize;
				let at = |h: &Vec<f64>, age: usize| if age < h.len() { h[h.len() - 1 - age] } else { 0.0 };
				let pv = at(&self.hist[1], 2);
				let doc = (rev < 0 && pv >= z) as i8 - (rev > 0 && pv <= -z) as i8;
				// deviation model: the SOURCE PRICE `reverse_offset` steps back is compared with the zone
				let src = src_of(c, &cj, "source");
				self.hist[0].push(src);
				let price = at(&self.hist[0], ro);
				let dev = (rev < 0 && price >= z) as i8 - (rev > 0 && price <= -z) as i8;
				vec![s0, Exp::Documented { doc: act_i(doc), deviation: act_i(dev) }]
			}
			"TrueStrengthIndex" => {
				let (tsi, sig) = (v[0], v[1]);
				let s1 = act_sub(self.xu[0].next(tsi, -z), self.xa[0].next(tsi, z));
				vec![s1, is(self.x[0].next(tsi, 0.0)), is(self.x[1].next(tsi, sig))]
			}
			"WoodiesCCI" => {
				let trend = v[1];
				let cross = self.x[0].next(trend, 0.0);
				if cross == 0 {
					self.i[0] += (trend > 0.0) as i64 - (trend < 0.0) as i64;
				} else {
					self.i[0] = cross as i64;
				}
				let lag = uz(&cj, "s1_lag") as i64;
				// documented: the trend CCI has stayed on one side of zero for s1_lag bars
				let doc = (self.i[0].abs() == lag) as i8 * self.i[0].signum() as i8;
				vec![is(doc)]
			}
			"Example" => {
				let price = fz(&cj, "price");
				let period = uz(&cj, "period") as i64;
				let ns = self.x[0].next(v[0], price);
				let signal = if ns == 0 {
					self.last_action = Action::None;
					self.i[0] = 0;
					Action::None
				} else {
					if self.last_action.is_some() {
						self.i[0] += 1;
						if self.i[0] > period {
							self.last_action = Action::None;
						}
					}
					self.last_action
				};
				vec![Exp::Is(signal), Exp::Near(0.5)]
			}
			_ => vec![],
		};
		out
	}
}

#[derive(Serialize, Deserialize, Clone, Debug)]
pub struct SCase {
	pub cfg: CfgCase,
	pub s: CandleStream,
}

pub fn check_signals(name: &str, r: &mut SigRef, c: &C5, vals: &[f64], sigs: &[Action], t: usize, cj: &Value, st: &mut Stats, fired: &mut [(u32, u32)]) -> CaseResult {
	if r.i[7] != 0 {
		// reference state became undecidable (Kaufman latch): nothing after this point is compared
		return Ok(());
	}
	let exp = r.next(c, vals);
	if exp.len() != sigs.len() {
		return Err(Failure::new(format!("C06:{name}:slots"), format!("{name}: {} signals returned, {} documented", sigs.len(), exp.len())));
	}
	for (i, (e, g)) in exp.iter().zip(sigs.iter()).enumerate() {
		if let Action::Buy(k) = g {
			if *k > 0 {
				fired[i].0 += 1;
			}
		}
		if let Action::Sell(k) = g {
			if *k > 0 {
				fired[i].1 += 1;
			}
		}
		let bad = |what: String| Err(Failure::new(format!("C06:{name}:signal:{i}"), format!("{name} {cj} step {t}: signal #{i} is {:?}, {what}; values {:?}, candle {:?}", g, vals, c)));
		match e {
			Exp::Is(a) => {
				if !same(*a, *g) {
					return bad(format!("the documented rule applied to the returned values gives {:?}", a));
				}
			}
			Exp::Near(x) => {
				let a = act_from(*x);
				if !same(a, *g) {
					// admissible neighbours when the recomputed float sits on a rounding boundary
					let frac = (x.clamp(-1.0, 1.0).abs() * 255.0).fract();
					let near_boundary = (frac - 0.5).abs() < 1e-6;
					let ga = g.ratio().map(|r| r as f64);
					let ok = near_boundary && ga.map_or(false, |r| (r - x.clamp(-1.0, 1.0)).abs() <= 1.0 / 255.0 + 1e-9);
					if !ok {
						return bad(format!("the documented proportional rule gives {:?} (from {:e})", a, x));
					}
					st.count("near_boundary_proportional_steps", 1);
				}
			}
			Exp::Ambiguous => st.count("exempt_ambiguous_steps", 1),
			Exp::Documented { doc, deviation } => {
				if !same(*doc, *g) {
					if same(*deviation, *g) {
						return Err(Failure::new(format!("C06:{name}:documented-rule-deviation:{i}"), format!("{name} {cj} step {t}: signal #{i} is {:?}; the documented rule gives {:?}, the (known) implemented rule {:?}", g, doc, deviation)));
					}
					return bad(format!("neither the documented rule ({:?}) nor the known implemented rule ({:?})", doc, deviation));
				}
			}
		}
	}
	Ok(())
}

pub fn run(c: &SCase, st: &mut Stats) -> CaseResult {
	let cfg = cfggen::instantiate(&c.cfg).map_err(|e| Failure::new("C06:generator", format!("{}: {e}", c.cfg.name)))?;
	let name = c.cfg.name.as_str();
	let cj = cfg.to_json();
	let cs = &c.s.cs;
	let mut inst = cfg.init(&cs[0].candle()).map_err(|e| Failure::new(format!("C06:{name}:init"), format!("{cj}: {e:?}")))?;
	let mut r = SigRef::new(name, &cj, &cs[0]);
	let mut fired = vec![(0u32, 0u32); 4];
	let mut deferred: Option<Failure> = None;
	for (t, k) in cs.iter().enumerate() {
		let res = inst.next(&k.candle());
		let vals: Vec<f64> = res.values().iter().map(|x| *x as f64).collect();
		if let Err(f) = check_signals(name, &mut r, k, &vals, res.signals(), t, &cj, st, &mut fired) {
			if f.sig.contains("documented-rule-deviation") {
				// known class: keep checking the other slots and steps behind it
				deferred.get_or_insert(f);
			} else {
				return Err(f);
			}
		}
	}
	for (i, (b, s)) in fired.iter().enumerate() {
		if *b > 0 {
			st.class(&format!("slot{i}:buy"));
		}
		if *s > 0 {
			st.class(&format!("slot{i}:sell"));
		}
	}
	if let Some(f) = deferred {
		return Err(f);
	}
	let p = cfggen::max_period(&cj) as usize;
	if cs.len() > p && fired.iter().any(|f| f.0 + f.1 > 0) {
		st.nontrivial(engine::fnv(format!("{:?}{:?}", c.cfg, &cs[..cs.len().min(8)]).as_bytes()) ^ cs.len() as u64);
	}
	st.count("steps", cs.len() as u64);
	st.sample(name, || serde_json::json!({"indicator": name, "config": cj, "stream_len": cs.len(), "signals_fired_buy_sell_per_slot": fired}));
	Ok(())
}

pub fn strategy(name: &'static str, max_len: usize) -> impl Strategy<Value = SCase> {
	cfggen::config_strategy(name, GenOpts { wide: false, price_sources: true, nonneg_ma: false })
		.prop_flat_map(move |cfg| {
			let p = if cfg.cfg.is_null() { 20 } else { cfggen::max_period(&cfg.cfg).clamp(2, 60) } as u32;
			(Just(cfg), prop_oneof![3 => gen::candle_stream_n(p, max_len), 1 => gen::regime_candle_stream_n(p, max_len)])
		})
		.prop_map(move |(mut cfg, s)| {
			if name == "Example" && !cfg.cfg.is_null() {
				// its single threshold is an absolute price: put it inside the range the stream visits
				let (lo, hi) = s.cs.iter().fold((f64::INFINITY, 0.0f64), |a, k| (a.0.min(k.c), a.1.max(k.c)));
				cfg.cfg["price"] = serde_json::json!(gen::vt(lo + (hi - lo) * 0.4).max(1e-9));
			}
			SCase { cfg, s }
		})
}

pub fn def(tier: Tier) -> PropertyDef {
	let mut checks: Vec<Box<dyn SubCheck>> = Vec::new();
	let max_len = tier.pick(400usize, 1500);
	for name in cfggen::NAMES {
		if name == "DetrendedPriceOscillator" {
			continue; // no signals
		}
		checks.push(pt(&format!("signals_{name}"), tier.pick(4000, 80000), strategy(name, max_len), run));
		// long one-sided trends with a zig-zag: run, peak and "bars since" counters far from their start
		let strat = (cfggen::config_strategy(name, GenOpts { wide: false, price_sources: true, nonneg_ma: false }), gen::trend_candle_stream(tier.pick(2500, 12000))).prop_map(move |(mut cfg, s)| {
			if name == "Example" && !cfg.cfg.is_null() {
				let (lo, hi) = s.cs.iter().fold((f64::INFINITY, 0.0f64), |a, k| (a.0.min(k.c), a.1.max(k.c)));
				cfg.cfg["price"] = serde_json::json!(gen::vt(lo + (hi - lo) * 0.4).max(1e-9));
			}
			SCase { cfg, s }
		});
		checks.push(pt(&format!("trend_signals_{name}"), tier.pick(60, 1500), strat, run));
		// exactly representable lattice candles: ties between prices, averages and thresholds
		let strat = (cfggen::config_strategy(name, GenOpts { wide: false, price_sources: true, nonneg_ma: false }), gen::lattice_candle_stream(tier.pick(200, 600))).prop_map(|(cfg, s)| SCase { cfg, s });
		checks.push(pt(&format!("lattice_signals_{name}"), tier.pick(300, 6000), strat, run));
	}
	checks.extend(crate::fuzz_entry::corpus_checks("C06"));
	PropertyDef {
		id: "C06",
		level: "exploration",
		rule: "36 indicators with signals (all but DetrendedPriceOscillator), generated valid configurations with every MA kind, valid candle streams <= 400 (thorough 1500) incl. flat/regime streams and tiny price scales, plus long one-sided trend streams with a zig-zag (<= 2500 bars, thorough 12000). At every step each signal slot is recomputed from the indicator's OWN returned values, the candle and the configuration by definitional detectors written for this check (crossing on the computed difference, newest-wins reversal, counters, latches, an independent float->strength conversion) and must equal the returned Action (Buy(0) == Sell(0)); proportional signals recomputed from floats admit the neighbouring strength exactly on a rounding boundary; Kaufman's filtered latch is tri-state (its deviation estimate is not returned). Where documentation and implementation disagree on the rule itself (PivotReversalStrategy, TrendStrengthIndex #2) the DOCUMENTED rule is the reference and the implemented rule is kept as a deviation model (known finding); anything else is a violation. Non-trivial = stream longer than the largest period with at least one signal fired; per slot the evidence lists whether Buy and Sell fired.",
		assumptions: vec!["polarity/wording mismatches between prose and code (Keltner, TrendStrengthIndex #1, RelativeVigorIndex #2) follow the code, as fixed in DESIGN §6".into()],
		exhaustive: false,
		checks,
	}
}
