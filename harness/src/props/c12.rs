//! C12 — documented value ranges and ordering invariants hold on every valid stream.

use crate::approx::{allow, eps};
use crate::cfggen::{self, CfgCase, GenOpts};
use crate::engine::{self, pt, CaseResult, Failure, PropertyDef, Stats, SubCheck, Tier};
use crate::gen::{self, CandleStream, Domain, ValStream, C5};
use crate::{ensure, fail};
use proptest::prelude::*;
use serde::{Deserialize, Serialize};
use serde_json::Value;
use yata::core::{Candle, Method, PeriodType, ValueType, OHLCV};
use yata::methods::{LinearVolatility, MeanAbsDev, StDev, TR, TSI};

#[derive(Serialize, Deserialize, Clone, Debug)]
pub struct RCase {
	pub cfg: CfgCase,
	pub s: CandleStream,
}

fn src_of(c: &C5, s: &str) -> f64 {
	match s {
		"close" => c.c,
		"open" => c.o,
		"high" => c.h,
		"low" => c.l,
		"hl2" => (c.h + c.l) * 0.5,
		"tp" => (c.h + c.l + c.c) / 3.0,
		"volume" => c.v,
		_ => (c.h + c.l + c.c) / 3.0 * c.v,
	}
}

/// last n elements ending at t, padded with the first
fn window_of<'a>(cs: &'a [C5], t: usize, n: usize) -> impl Iterator<Item = &'a C5> + 'a {
	(0..n).map(move |age| if age > t { &cs[0] } else { &cs[t - age] })
}

fn in_range(v: f64, lo: f64, hi: f64, d: f64) -> bool {
	v >= lo - d && v <= hi + d
}

fn check_step(name: &str, cj: &Value, cs: &[C5], t: usize, vals: &[f64], st: &mut Stats) -> CaseResult {
	let m = cs[..=t].iter().fold(0.0f64, |m, k| m.max(k.h));
	let mv = cs[..=t].iter().fold(0.0f64, |m, k| m.max(k.v));
	check_step_at(name, cj, cs, t, t, m, mv, vals, st)
}

/// `cs[..=t]` may be only the recent part of a longer history (it must hold at least the longest window):
/// `t_abs` is the number of candles processed so far, `m` / `mv` the largest high / volume of the whole history
pub fn check_step_at(name: &str, cj: &Value, cs: &[C5], t: usize, t_abs: usize, m: f64, mv: f64, vals: &[f64], st: &mut Stats) -> CaseResult {
	let c = &cs[t];
	let p = cfggen::max_period(cj).max(1) as usize;
	let d1 = allow(p, t_abs, 1.0, 4.0); // scale-free quantities: interval width 1 (or 2)
	let dm = allow(p, t_abs, m, 4.0);
	let t_rel = t;
	let t = t_abs;
	let desc = |what: &str, v: f64| format!("{name} {cj} step {t}: {what} = {v:e}; candle {:?}", c);
	// finiteness wherever the formula is defined
	let mut exempt_nonfinite = false;
	match name {
		"ChaikinMoneyFlow" => {
			let n = cj["size"].as_u64().unwrap_or(1) as usize;
			let vol: f64 = window_of(cs, t_rel, n).map(|k| k.v).sum();
			exempt_nonfinite = vol == 0.0;
		}
		"TrendStrengthIndex" => {
			let n = cj["period"].as_u64().unwrap_or(1) as usize;
			let s = cj["source"].as_str().unwrap_or("close");
			let first = src_of(&cs[t_rel], s);
			exempt_nonfinite = window_of(cs, t_rel, n).all(|k| src_of(k, s) == first);
		}
		_ => {}
	}
	if exempt_nonfinite {
		st.count("exempt_undefined_steps", 1);
	} else {
		for (i, v) in vals.iter().enumerate() {
			ensure!(v.is_finite(), &format!("C12:{name}:non-finite:{i}"), "{}", desc(&format!("value #{i}"), *v));
		}
	}
	match name {
		"Aroon" => {
			ensure!(in_range(vals[0], 0.0, 1.0, 0.0) && in_range(vals[1], 0.0, 1.0, 0.0), "C12:Aroon:range", "{}", desc("aroon up/down", vals[0]));
		}
		"RelativeStrengthIndex" => ensure!(in_range(vals[0], 0.0, 1.0, d1), "C12:RelativeStrengthIndex:range", "{}", desc("RSI", vals[0])),
		"MoneyFlowIndex" => ensure!(in_range(vals[1], 0.0, 1.0, d1), "C12:MoneyFlowIndex:range", "{}", desc("MFI", vals[1])),
		"StochasticOscillator" => {
			ensure!(in_range(vals[0], 0.0, 1.0, d1), "C12:StochasticOscillator:range-k", "{}", desc("%K", vals[0]));
			ensure!(in_range(vals[1], 0.0, 1.0, d1), "C12:StochasticOscillator:range-d", "{}", desc("%D", vals[1]));
		}
		"TrendStrengthIndex" => {
			if !exempt_nonfinite {
				// the correlation of the window with time, p / sqrt(q): q is the window's variance obtained as the
				// difference of two running sums (sy2 - sy^2/n, magnitude M^2 each), p a difference of two running
				// means (magnitude M each) - the documented interval holds up to these two cancellations
				let n = cj["period"].as_u64().unwrap_or(2) as usize;
				let s = cj["source"].as_str().unwrap_or("close");
				let xs: Vec<f64> = window_of(cs, t_rel, n).map(|k| src_of(k, s)).collect();
				let mean = xs.iter().sum::<f64>() / n as f64;
				let sigma = (xs.iter().map(|x| (x - mean) * (x - mean)).sum::<f64>() / n as f64).sqrt();
				let big = match s {
					"volume" => mv,
					"close" | "open" | "high" | "low" | "hl2" | "tp" => m,
					_ => m * mv,
				};
				let big = xs.iter().fold(big, |a, x| a.max(x.abs()));
				let d = allow(n, t_abs, 1.0, 1.0) * (big / sigma + big * big / (sigma * sigma));
				if d.is_finite() && d <= 0.25 {
					st.ratio(((vals[0].abs() - 1.0) / d).max(0.0));
					ensure!(in_range(vals[0], -1.0, 1.0, d), "C12:TrendStrengthIndex:range", "{} (allowance {d:e}, window deviation {sigma:e})", desc("trend strength", vals[0]));
					st.count("tsi_range_steps", 1);
				} else {
					st.count("tsi_range_exempt_ill_conditioned", 1);
				}
			}
		}
		"AverageDirectionalIndex" => {
			// ADX averages |+DI - -DI| / (+DI + -DI), a number in [0, 1] whatever the directional values are: with a
			// second average of fixed non-negative weights (or a median) it stays there.
			// +DI and -DI are ratios of ONE average applied to directional movement and to true range; with
			// period1 == 1 the movement of a bar never exceeds its true range, so for such an average both stay in
			// [0, 1] - wherever the ratio is defined, i.e. the true ranges the average still remembers are not all
			// zero (decided on the inputs). The running sums carry a residue of the largest range of the history,
			// hence the conditioning term.
			let kind = |m: &Value| m.as_object().and_then(|o| o.keys().next().cloned()).unwrap_or_default();
			let len = |m: &Value| m.as_object().and_then(|o| o.values().next().and_then(Value::as_u64)).unwrap_or(1) as usize;
			let fixed = |k: &str| matches!(k, "sma" | "wma" | "rma" | "ema" | "dma" | "tma" | "wsma" | "smm" | "swma" | "trima");
			if fixed(&kind(&cj["method2"])) {
				ensure!(in_range(vals[0], 0.0, 1.0, d1), "C12:AverageDirectionalIndex:range-adx", "{}", desc("ADX", vals[0]));
			}
			if cj["period1"].as_u64() == Some(1) && fixed(&kind(&cj["method1"])) {
				let n = len(&cj["method1"]).max(1);
				let w: Vec<&C5> = window_of(cs, t_rel, n + 1).collect(); // newest first
				let tr_sum: f64 = (0..n).map(|i| w[i].h.max(w[i + 1].c) - w[i].l.min(w[i + 1].c)).sum();
				let d = allow(n, t_abs, 1.0, 4.0) * (1.0 + n as f64 * m / tr_sum);
				if tr_sum > 0.0 && d <= 0.25 {
					st.ratio(((vals[1].max(vals[2]) - 1.0) / d).max(0.0));
					ensure!(in_range(vals[1], 0.0, 1.0, d), "C12:AverageDirectionalIndex:range-plus", "{} (allowance {d:e})", desc("+DI", vals[1]));
					ensure!(in_range(vals[2], 0.0, 1.0, d), "C12:AverageDirectionalIndex:range-minus", "{} (allowance {d:e})", desc("-DI", vals[2]));
					st.count("adx_di_range_steps", 1);
				} else {
					st.count("adx_di_range_exempt_flat_or_ill_conditioned", 1);
				}
			}
		}
		"ChandeMomentumOscillator" => ensure!(in_range(vals[0], -1.0, 1.0, d1), "C12:ChandeMomentumOscillator:range", "{}", desc("CMO", vals[0])),
		"ChaikinMoneyFlow" => {
			if !exempt_nonfinite {
				// a ratio of two running sums of volumes: the residue of each sum is proportional to the largest
				// volume of the history, the ratio's error to that residue over the current total volume
				let n = cj["size"].as_u64().unwrap_or(1) as usize;
				let vol: f64 = window_of(cs, t_rel, n).map(|k| k.v).sum();
				// every term clv_i carries the cancellation error of its own candle, amplified by price / range
				// (the bound the clv check below and C18 use); a volume-weighted mean cannot err by more than the largest
				let dclv = window_of(cs, t_rel, n).map(|k| if k.h > k.l { 8.0 * eps() * (k.h + k.l + 2.0 * k.c) / (k.h - k.l) } else { 0.0 }).fold(0.0f64, f64::max);
				let dv = d1 + dclv + 2.0 * allow(n, t, mv, n as f64) / vol;
				ensure!(in_range(vals[0], -1.0, 1.0, dv), "C12:ChaikinMoneyFlow:range", "{} (allowance {dv:e}, window volume {vol:e}, largest volume so far {mv:e})", desc("CMF", vals[0]));
			}
		}
		"TrueStrengthIndex" => {
			ensure!(in_range(vals[0], -1.0, 1.0, d1), "C12:TrueStrengthIndex:range", "{}", desc("TSI", vals[0]));
			ensure!(in_range(vals[1], -1.0, 1.0, d1), "C12:TrueStrengthIndex:range-signal", "{}", desc("TSI signal line", vals[1]));
		}
		"SMIErgodicIndicator" => {
			ensure!(in_range(vals[0], -1.0, 1.0, d1), "C12:SMIErgodicIndicator:range", "{}", desc("SMI", vals[0]));
			ensure!(in_range(vals[1], -1.0, 1.0, d1), "C12:SMIErgodicIndicator:range-signal", "{}", desc("SMI signal line", vals[1]));
		}
		"BollingerBands" => {
			ensure!(vals[0] >= vals[1] - dm && vals[1] >= vals[2] - dm, "C12:BollingerBands:order", "{}: upper {:e} middle {:e} lower {:e}", desc("bands", vals[0]), vals[0], vals[1], vals[2]);
		}
		"KeltnerChannel" => ensure!(vals[1] >= vals[2] - dm, "C12:KeltnerChannel:order", "{}: upper {:e} lower {:e}", desc("bands", vals[1]), vals[1], vals[2]),
		"Envelopes" => ensure!(vals[0] >= vals[1] - dm, "C12:Envelopes:order", "{}: upper {:e} lower {:e}", desc("bands", vals[0]), vals[0], vals[1]),
		"DonchianChannel" => {
			let e = 4.0 * eps() * m;
			ensure!(vals[0] <= c.l && c.h <= vals[2], "C12:DonchianChannel:contain", "{}: channel [{:e}, {:e}] does not contain the candle", desc("lowest", vals[0]), vals[0], vals[2]);
			ensure!(vals[0] <= vals[1] + e && vals[1] <= vals[2] + e, "C12:DonchianChannel:order", "{}: lowest {:e} middle {:e} highest {:e}", desc("channel", vals[1]), vals[0], vals[1], vals[2]);
		}
		"PriceChannelStrategy" => {
			let e = 4.0 * eps() * m;
			ensure!(vals[0] >= vals[1] - e, "C12:PriceChannelStrategy:order", "{}: upper {:e} lower {:e}", desc("channel", vals[0]), vals[0], vals[1]);
			if cj["sigma"].as_f64() == Some(1.0) {
				ensure!(vals[0] >= c.h - e && vals[1] <= c.l + e, "C12:PriceChannelStrategy:contain", "{}: channel [{:e}, {:e}] does not contain the candle", desc("channel", vals[0]), vals[1], vals[0]);
			}
		}
		"ParabolicSAR" => {
			if vals[1] > 0.0 {
				ensure!(vals[0] <= c.l, "C12:ParabolicSAR:side", "{}: SAR {:e} above the low {:e} in an up trend", desc("sar", vals[0]), vals[0], c.l);
			} else if vals[1] < 0.0 {
				ensure!(vals[0] >= c.h, "C12:ParabolicSAR:side", "{}: SAR {:e} below the high {:e} in a down trend", desc("sar", vals[0]), vals[0], c.h);
			} else {
				fail!("C12:ParabolicSAR:trend", "{}", desc("trend", vals[1]));
			}
		}
		_ => {}
	}
	Ok(())
}

pub fn run_indicator(c: &RCase, st: &mut Stats) -> CaseResult {
	let cfg = cfggen::instantiate(&c.cfg).map_err(|e| Failure::new("C12:generator", format!("{}: {e}", c.cfg.name)))?;
	let name = c.cfg.name.as_str();
	let cj = cfg.to_json();
	let cs = &c.s.cs;
	let mut inst = cfg.init(&cs[0].candle()).map_err(|e| Failure::new(format!("C12:{name}:init"), format!("{cj}: {e:?}")))?;
	let p = cfggen::max_period(&cj).max(1) as usize;
	let mut flat_run = 0usize;
	let mut longest_flat = 0usize;
	let mut moved_after_flat = false;
	for t in 0..cs.len() {
		let r = inst.next(&cs[t].candle());
		let vals: Vec<f64> = r.values().iter().map(|x| *x as f64).collect();
		check_step(name, &cj, cs, t, &vals, st)?;
		if t > 0 && cs[t] == cs[t - 1] && cs[t].h == cs[t].l {
			flat_run += 1;
			longest_flat = longest_flat.max(flat_run);
		} else {
			if longest_flat >= p {
				moved_after_flat = true;
			}
			flat_run = 0;
		}
	}
	if moved_after_flat {
		st.nontrivial(engine::fnv(format!("{:?}{:?}", c.cfg, &cs[..cs.len().min(8)]).as_bytes()) ^ cs.len() as u64);
		st.class("flat>=window-then-movement");
	} else {
		st.class("other");
	}
	st.count("steps", cs.len() as u64);
	st.sample(name, || serde_json::json!({"indicator": name, "config": cj, "stream_len": cs.len(), "longest_exactly_flat_run": longest_flat, "first": cs[0]}));
	Ok(())
}

// ---------------------------------------------------------------------------------------
// methods

fn run_methods(c: &ValStream, st: &mut Stats) -> CaseResult {
	let n = c.n.max(2);
	let len = n as PeriodType;
	let init = c.xs[0] as ValueType;
	let mut lv = LinearVolatility::new(len, &init).map_err(|e| Failure::new("C12:ctor", format!("{e:?}")))?;
	let mut sd = StDev::new(len, &init).map_err(|e| Failure::new("C12:ctor", format!("{e:?}")))?;
	let mut mad = MeanAbsDev::new(len, &init).map_err(|e| Failure::new("C12:ctor", format!("{e:?}")))?;
	let short = (n / 2).max(1) as PeriodType;
	let mut tsi = TSI::new(short, len, &init).map_err(|e| Failure::new("C12:ctor", format!("{e:?}")))?;
	let mut m = 0.0f64;
	for (t, &x) in c.xs.iter().enumerate() {
		let x = gen::vt(x);
		m = m.max(x.abs());
		let xv = x as ValueType;
		let v = lv.next(&xv) as f64;
		ensure!(v.is_finite() && v >= -allow(n as usize, t, 2.0 * m, n as f64), "C12:LinearVolatility:negative", "LinearVolatility({n}) step {t}: {v:e}");
		let v = sd.next(&xv) as f64;
		ensure!(v.is_finite() && v >= 0.0, "C12:StDev:negative", "StDev({n}) step {t}: {v:e}");
		let v = mad.next(&xv) as f64;
		ensure!(v.is_finite() && v >= 0.0, "C12:MeanAbsDev:negative", "MeanAbsDev({n}) step {t}: {v:e}");
		let v = tsi.next(&xv) as f64;
		ensure!(v.is_finite() && in_range(v, -1.0, 1.0, allow(n as usize, t, 1.0, 4.0)), "C12:TSI:range", "TSI({short},{n}) step {t}: {v:e}");
	}
	let flat = c.xs.windows(n as usize + 1).any(|w| w.iter().all(|x| *x == w[0]));
	if flat && c.xs.len() > 2 * n as usize {
		st.nontrivial(engine::mix(n as u64, engine::fnv_f64s(&c.xs)));
	}
	st.sample("methods", || serde_json::to_value(c).unwrap());
	Ok(())
}

fn run_candle_helpers(c: &CandleStream, st: &mut Stats) -> CaseResult {
	let first = c.cs[0].candle();
	let mut tr = TR::new(&first).map_err(|e| Failure::new("C12:ctor", format!("{e:?}")))?;
	for (t, k) in c.cs.iter().enumerate() {
		let cd: Candle = k.candle();
		let v = tr.next(&cd) as f64;
		ensure!(v.is_finite() && v >= 0.0, "C12:TR:negative", "TR step {t}: {v:e} for {:?}", k);
		let clv = cd.clv() as f64;
		// every operation of the formula is correctly rounded on exact inputs; the cancellation in the numerator
		// is amplified by price / range
		let dc = if k.h > k.l { 8.0 * eps() * (k.h + k.l + 2.0 * k.c) / (k.h - k.l) } else { 0.0 };
		ensure!(clv.is_finite() && in_range(clv, -1.0, 1.0, dc), "C12:clv:range", "clv = {clv:e} for {:?} (allowance {dc:e})", k);
	}
	if c.cs.iter().any(|k| k.h == k.l) {
		st.nontrivial(engine::fnv(format!("{:?}", &c.cs[..c.cs.len().min(12)]).as_bytes()));
	}
	st.sample("candle-helpers", || serde_json::to_value(&c.cs[..c.cs.len().min(6)]).unwrap());
	Ok(())
}

pub fn def(tier: Tier) -> PropertyDef {
	let mut checks: Vec<Box<dyn SubCheck>> = Vec::new();
	let max_len = tier.pick(500usize, 1500);
	for name in cfggen::NAMES {
		// the range claims of these are conditional on averaging kinds that cannot overshoot
		let nonneg = matches!(name, "RelativeStrengthIndex" | "StochasticOscillator" | "SMIErgodicIndicator" | "Envelopes");
		let opts = GenOpts { wide: false, price_sources: true, nonneg_ma: nonneg };
		let strat = cfggen::config_strategy(name, opts)
			.prop_flat_map(move |cfg| {
				let p = if cfg.cfg.is_null() { 20 } else { cfggen::max_period(&cfg.cfg).clamp(2, 80) } as u32;
				(Just(cfg), prop_oneof![3 => gen::regime_candle_stream_n(p, max_len), 1 => gen::candle_stream_n(p, max_len)])
			})
			.prop_map(|(cfg, s)| RCase { cfg, s });
		checks.push(pt(&format!("indicator_{name}"), tier.pick(2500, 10000), strat, run_indicator));
		// long one-sided trends with a zig-zag
		let strat = (cfggen::config_strategy(name, opts), gen::trend_candle_stream(tier.pick(2500, 12000))).prop_map(|(cfg, s)| RCase { cfg, s });
		checks.push(pt(&format!("trend_{name}"), tier.pick(60, 1000), strat, run_indicator));
		if name == "TrendStrengthIndex" {
			// exactly linear stretches longer than the window: the correlation reaches +-1 exactly (seed S150)
			let strat = cfggen::config_strategy(name, opts)
				.prop_flat_map(move |cfg| {
					let p = cfggen::max_period(&cfg.cfg).clamp(2, 260) as u32;
					(Just(cfg), gen::ramp_candle_stream_n(p, 2000))
				})
				.prop_map(|(cfg, s)| RCase { cfg, s });
			checks.push(pt(&format!("ramp_{name}"), tier.pick(600, 6000), strat, run_indicator));
		}
	}
	checks.push(pt("methods", tier.pick(20000, 100000), gen::val_stream(2, max_len, Domain::Any, false), run_methods));
	checks.push(pt("candle_helpers", tier.pick(6000, 60000), prop_oneof![gen::candle_stream(2, 300), gen::regime_candle_stream_n(10, 300)], run_candle_helpers));
	checks.extend(crate::fuzz_entry::corpus_checks("C12"));
	PropertyDef {
		id: "C12",
		level: "exploration",
		rule: "(Also long one-sided trend streams with a zig-zag, <= 2500 bars / thorough 12000, sub-checks trend_*.) All 37 indicators with generated valid configurations (non-overshooting MA kinds where the range claim is conditional) on regime streams built for the configuration's longest window: volatile -> EXACTLY flat candles for 3n+2 steps -> volatile -> flat 2n+1 -> volatile, with zero-volume stretches and high == low candles (3 of 4 cases), plus the general candle streams. Oracle: pure predicates on the outputs at every step - documented intervals (Aroon, RSI, MFI, Stochastic in [0,1]; CMO, CMF, TSI-based in [-1,1]; TrendStrengthIndex in [-1,1] up to the conditioning of its variance, K*eps*(n+t)*(M/sigma + M^2/sigma^2), steps where that exceeds 0.25 counted as exempt; sub-check ramp_TrendStrengthIndex: exactly linear stretches longer than the window on the 1/4 lattice; AverageDirectionalIndex: ADX in [0,1] when the second average has fixed non-negative weights or is a median, +DI/-DI in [0,1] when moreover period1 == 1 and the true ranges the first average remembers are not all zero, allowance K*eps*(n+t)*(1 + n*M/sum of those ranges), exempt beyond 0.25), band orderings, channel containment, SAR on the side opposite to its trend (exact), dispersion measures >= 0, clv in [-1,1], and finiteness of every value of every indicator wherever the formula is defined (exempt: CMF windows with exactly zero total volume, TrendStrengthIndex windows that are exactly constant). Allowance K*eps*(n+t)*width, no conditioning exemption. Non-trivial = a case containing an exactly flat stretch at least as long as the longest window, followed by movement.",
		assumptions: vec!["Keltner/Envelopes band order is claimed for non-overshooting averages of positive prices".into()],
		exhaustive: false,
		checks,
	}
}
