//! C13 — serialized snapshots restore behaviourally identical instances.

use crate::cfggen::{self, CfgCase, GenOpts};
use crate::dynm::{self, In};
use crate::engine::{self, enumerate, pt, CaseResult, Failure, PropertyDef, Stats, SubCheck, Tier};
use crate::gen::{self, CandleStream};
use crate::mgen::{self, MStream};
use crate::props::c11::result_bits;
use crate::refm::sel;
use crate::{ensure, fail};
use proptest::prelude::*;
use serde::{Deserialize, Serialize};
use serde_json::Value;
use yata::core::{Action, Candle, Method, PeriodType, ValueType, Window};
use yata::helpers::Peekable;
use yata::methods::SMM;

#[derive(Serialize, Deserialize, Clone, Debug)]
pub struct SnapCase {
	pub m: MStream,
	/// snapshot position as a fraction of the stream (mapped monotonically)
	pub at: u16,
}

/// does the serialized text contain a non-finite float (serde_json writes them as null)?
fn has_nonfinite(json: &str, kind: &str) -> bool {
	if kind == "CollapseTimeframe" {
		// `current: null` is a legitimate Option
		return json.replace("\"current\":null", "").contains("null");
	}
	json.contains("null")
}

fn run_snap(c: &SnapCase, st: &mut Stats) -> CaseResult {
	let kind = dynm::kind(&c.m.kind).ok_or_else(|| Failure::new("C13:harness", "unknown kind"))?;
	let name = kind.name;
	let xs = &c.m.xs;
	let mut m = (kind.make)(&c.m.params, &xs[0]).map_err(|e| Failure::new(format!("C13:{name}:ctor"), format!("{:?}: {e:?}", c.m.params)))?;
	// snapshot after k steps, k in 0..=len
	let span = c.m.span().max(1);
	let k = {
		let sel = c.at as usize;
		// favour early positions (every ring phase of a short window) but reach everywhere
		if sel % 3 == 0 { sel / 3 % (2 * span + 2).min(xs.len() + 1) } else { (sel * (xs.len() + 1)) >> 16 }
	};
	for x in &xs[..k] {
		m.next(x);
	}
	let json = m.to_json().map_err(|e| Failure::new(format!("C13:{name}:serialize"), e))?;
	if has_nonfinite(&json, name) {
		st.count("skipped_nonfinite", 1);
		return Ok(());
	}
	let mut r = match m.restore(&json) {
		Ok(r) => r,
		Err(e) => fail!(&format!("C13:{name}:restore"), "{name} {:?} after {k} steps: its own serialization is rejected: {e}; {}", c.m.params, engine::clip(&json, 300)),
	};
	let json2 = r.to_json().map_err(|e| Failure::new(format!("C13:{name}:serialize"), e))?;
	ensure!(json2 == json, &format!("C13:{name}:reserialize"), "{name}: restored instance serializes differently:\n{}\n{}", engine::clip(&json, 300), engine::clip(&json2, 300));
	let mut changed = false;
	let mut prev: Option<Vec<u64>> = None;
	for (t, x) in xs[k..].iter().enumerate() {
		let a = m.next(x);
		let b = r.next(x);
		ensure!(a.same_bits(&b), &format!("C13:{name}:behaviour"), "{name} {:?} snapshot after {k} steps: step {} of the continuation: original {:?}, restored {:?}", c.m.params, t, a, b);
		if let (Some(pa), Some(pb)) = (m.peek(), r.peek()) {
			ensure!(pa.same_bits(&pb), &format!("C13:{name}:peek"), "{name}: peek differs after restore");
		}
		let bits = a.bits();
		if let Some(p) = &prev {
			changed |= *p != bits;
		}
		prev = Some(bits);
	}
	let (ja, jb) = (m.to_json(), r.to_json());
	ensure!(ja == jb, &format!("C13:{name}:final-state"), "{name}: states differ after the continuation");
	if k % span != 0 && changed || (span == 1 && k > 0 && changed) {
		st.nontrivial(engine::fnv(format!("{:?}{}", c.m.params, k).as_bytes()) ^ engine::fnv(format!("{:?}", &xs[..xs.len().min(12)]).as_bytes()));
	}
	st.count("steps", xs.len() as u64);
	st.sample(name, || serde_json::json!({"kind": name, "params": c.m.params, "snapshot_after": k, "stream_len": xs.len(), "snapshot": engine::clip(&json, 200)}));
	Ok(())
}

// ---------------------------------------------------------------------------------------
// indicators

#[derive(Serialize, Deserialize, Clone, Debug)]
pub struct ISnapCase {
	pub cfg: CfgCase,
	pub s: CandleStream,
	pub at: u16,
}

pub fn run_isnap(c: &ISnapCase, st: &mut Stats) -> CaseResult {
	let cfg = cfggen::instantiate(&c.cfg).map_err(|e| Failure::new("C13:generator", format!("{}: {e}", c.cfg.name)))?;
	let name = c.cfg.name.as_str();
	let cs: Vec<Candle> = c.s.cs.iter().map(|k| k.candle()).collect();
	// configuration round trip
	let cj = cfg.to_json();
	let kind = crate::dyni::kind(name).unwrap();
	let cfg2 = (kind.from_json)(&cj).map_err(|e| Failure::new(format!("C13:{name}:config-restore"), format!("{cj}: {e}")))?;
	ensure!(cfg2.to_json() == cj, &format!("C13:{name}:config-roundtrip"), "{name}: configuration {cj} restores as {}", cfg2.to_json());
	let mut a = cfg.init(&cs[0]).map_err(|e| Failure::new(format!("C13:{name}:init"), format!("{cj}: {e:?}")))?;
	let mut a2 = cfg2.init(&cs[0]).map_err(|e| Failure::new(format!("C13:{name}:init"), format!("{cj}: {e:?}")))?;
	let k = (c.at as usize * (cs.len() + 1)) >> 16;
	for cd in &cs[..k] {
		let (x, y) = (a.next(cd), a2.next(cd));
		ensure!(result_bits(&x) == result_bits(&y), &format!("C13:{name}:config-behaviour"), "{name}: instance of the restored configuration behaves differently");
	}
	if name == "Example" {
		return Ok(());
	}
	let json = a.to_json().map_err(|e| Failure::new(format!("C13:{name}:serialize"), e))?;
	if json.contains("null") {
		st.count("skipped_nonfinite", 1);
		return Ok(());
	}
	let mut r = match a.restore(&json) {
		Ok(r) => r,
		Err(e) => fail!(&format!("C13:{name}:restore"), "{name} {cj} after {k} steps: its own serialization is rejected: {e}"),
	};
	let json2 = r.to_json().map_err(|e| Failure::new(format!("C13:{name}:serialize"), e))?;
	ensure!(json2 == json, &format!("C13:{name}:reserialize"), "{name}: restored instance serializes differently");
	ensure!(r.config_json() == cj && r.name() == name && r.size() == a.size(), &format!("C13:{name}:restored-config"), "{name}: restored instance reports another configuration");
	let mut moved = false;
	let mut prev: Option<Vec<u64>> = None;
	for (t, cd) in cs[k..].iter().enumerate() {
		let (x, y) = (a.next(cd), r.next(cd));
		ensure!(result_bits(&x) == result_bits(&y), &format!("C13:{name}:behaviour"), "{name} {cj} snapshot after {k} steps: continuation step {t}: original {:?}, restored {:?}", x, y);
		let b = result_bits(&x);
		if let Some(p) = &prev {
			moved |= *p != b;
		}
		prev = Some(b);
	}
	ensure!(a.to_json() == r.to_json(), &format!("C13:{name}:final-state"), "{name}: states differ after the continuation");
	if k > 0 && moved {
		st.nontrivial(engine::fnv(format!("{:?}{}{:?}", c.cfg, k, &c.s.cs[..c.s.cs.len().min(10)]).as_bytes()));
	}
	st.count("steps", cs.len() as u64);
	st.sample(name, || serde_json::json!({"indicator": name, "config": cj, "snapshot_after": k, "stream_len": cs.len()}));
	Ok(())
}

// ---------------------------------------------------------------------------------------
// plain data types

fn run_plain(_: &u8, st: &mut Stats) -> CaseResult {
	for a in crate::props::c16::A::all() {
		let x = a.act();
		let j = serde_json::to_string(&x).unwrap();
		let y: Action = serde_json::from_str(&j).map_err(|e| Failure::new("C13:Action", format!("{j}: {e}")))?;
		let same = matches!((x, y), (Action::None, Action::None)) || matches!((x, y), (Action::Buy(p), Action::Buy(q)) if p == q) || matches!((x, y), (Action::Sell(p), Action::Sell(q)) if p == q);
		ensure!(same, "C13:Action", "{:?} -> {j} -> {:?}", x, y);
		st.nontrivial_bulk(1);
	}
	for (i, c) in crate::props::c10::canned_candles(200).iter().enumerate() {
		let k = c.candle();
		let j = serde_json::to_string(&k).unwrap();
		let y: Candle = serde_json::from_str(&j).map_err(|e| Failure::new("C13:Candle", format!("{j}: {e}")))?;
		ensure!(y == k, "C13:Candle", "candle #{i} does not round-trip: {j}");
		st.nontrivial_bulk(1);
	}
	st.sample("plain", || serde_json::json!("all 513 actions, 200 candles"));
	Ok(())
}

// ---------------------------------------------------------------------------------------
// adversarial Window / SMM data

#[derive(Serialize, Deserialize, Clone, Debug)]
pub struct WinJson {
	pub text: String,
}

fn window_json_strategy() -> impl Strategy<Value = WinJson> {
	let len = prop_oneof![4 => 0usize..6, 3 => 6usize..40, 2 => 250usize..260, 1 => Just(254usize), 1 => Just(255usize), 1 => 256usize..300];
	let index = prop_oneof![
		4 => (0u32..8).prop_map(|v| v.to_string()),
		3 => (0u32..320).prop_map(|v| v.to_string()),
		5 => proptest::sample::select(vec!["-1", "255", "256", "1.0", "1e2", "\"1\"", "null", "18446744073709551616", "[0]", "true"]).prop_map(|s| s.to_string()),
	];
	(len, index, 0u8..12, any::<u16>()).prop_map(|(len, index, shape, rel)| {
		let buf: Vec<String> = (0..len).map(|i| (i as u32 * 3 + 1).to_string()).collect();
		let buf = format!("[{}]", buf.join(","));
		// an index relative to the length hits the boundary more often
		let index = if shape % 3 == 0 && len > 0 { ((rel as usize * (len + 2)) >> 16).to_string() } else { index };
		let text = match shape {
			0..=5 => format!("{{\"buf\":{buf},\"index\":{index}}}"),
			6 => format!("{{\"index\":{index},\"buf\":{buf}}}"),
			7 => format!("{{\"buf\":{buf},\"index\":{index},\"size\":3,\"s_1\":2}}"),
			8 => format!("{{\"buf\":{buf},\"index\":{index},\"index\":0}}"),
			9 => format!("{{\"buf\":{buf}}}"),
			10 => format!("{{\"index\":{index}}}"),
			_ => format!("{{\"buf\":{buf},\"buf\":[],\"index\":{index}}}"),
		};
		WinJson { text }
	})
}

pub fn run_window_json(c: &WinJson, st: &mut Stats) -> CaseResult {
	let parsed = engine::catch(|| serde_json::from_str::<Window<u32>>(&c.text)).map_err(|p| Failure::new(format!("C13:window-json-{}", p.sig()), format!("deserializing {} panicked at {}: {}", engine::clip(&c.text, 120), p.loc, p.msg)))?;
	// the generic view of the same text (keeps the last duplicate; only used when there are none)
	let v: Option<Value> = serde_json::from_str(&c.text).ok();
	let dup = c.text.matches("\"index\"").count() > 1 || c.text.matches("\"buf\"").count() > 1;
	let well_typed = v.as_ref().map_or(false, |v| v["buf"].as_array().map_or(false, |a| a.iter().all(|x| x.as_u64().map_or(false, |y| y <= u32::MAX as u64))) && v["index"].as_u64().map_or(false, |i| i <= PeriodType::MAX as u64))
		&& !dup;
	match parsed {
		Ok(w) => {
			ensure!(!dup, "C13:window-json-dup", "a text with duplicate fields was accepted");
			let v = v.unwrap();
			let buf: Vec<u32> = v["buf"].as_array().map(|a| a.iter().filter_map(|x| x.as_u64().map(|y| y as u32)).collect()).unwrap_or_default();
			let idx = v["index"].as_u64().unwrap_or(u64::MAX) as usize;
			ensure!(w.len() as usize == buf.len(), "C13:window-json-len", "accepted window has len {} for a buffer of {}", w.len(), buf.len());
			ensure!(buf.len() <= PeriodType::MAX as usize - 1, "C13:window-json-oversized", "a buffer of {} elements was accepted", buf.len());
			ensure!(idx < buf.len() || (buf.is_empty() && idx == 0), "C13:window-json-index", "index {idx} outside a buffer of {} was accepted", buf.len());
			if !buf.is_empty() {
				let model: Vec<u32> = buf[idx..].iter().chain(buf[..idx].iter()).copied().collect();
				let got: Vec<u32> = w.iter_rev().copied().collect();
				ensure!(got == model, "C13:window-json-sequence", "accepted window reads {:?}.. expected {:?}..", &got[..got.len().min(6)], &model[..model.len().min(6)]);
				ensure!(*w.oldest() == model[0] && *w.newest() == model[model.len() - 1], "C13:window-json-ends", "oldest/newest of the accepted window");
				let mut w2 = w.clone();
				ensure!(w2.push(7) == model[0], "C13:window-json-push", "push on the accepted window returns a wrong element");
			}
			st.class("accepted");
		}
		Err(_) => {
			if well_typed {
				let v = v.unwrap();
				let n = v["buf"].as_array().unwrap().len();
				let idx = v["index"].as_u64().unwrap() as usize;
				let valid = n <= PeriodType::MAX as usize - 1 && (idx < n || (n == 0 && idx == 0));
				ensure!(!valid, "C13:window-json-rejects-valid", "a valid window (len {n}, index {idx}) was rejected");
			}
			st.class("rejected");
		}
	}
	st.nontrivial(engine::fnv(c.text.as_bytes()));
	st.sample(if c.text.len() < 80 { "window-json/short" } else { "window-json/long" }, || serde_json::json!(engine::clip(&c.text, 160)));
	Ok(())
}

#[derive(Serialize, Deserialize, Clone, Debug)]
pub struct SmmJson {
	pub buf: Vec<f64>,
	pub index: u32,
	pub cont: Vec<f64>,
}

pub fn run_smm_json(c: &SmmJson, st: &mut Stats) -> CaseResult {
	let buf: Vec<f64> = c.buf.iter().map(|x| gen::vt(*x)).collect();
	let text = format!("{{\"window\":{{\"buf\":{},\"index\":{}}}}}", serde_json::to_string(&buf).unwrap(), c.index);
	let parsed = engine::catch(|| serde_json::from_str::<SMM>(&text)).map_err(|p| Failure::new(format!("C13:smm-json-{}", p.sig()), format!("deserializing {text} panicked: {}", p.msg)))?;
	let n = buf.len();
	let valid = n >= 1 && n <= 254 && (c.index as usize) < n;
	match parsed {
		Err(e) => ensure!(!valid, "C13:smm-json-rejects-valid", "valid SMM data rejected: {text}: {e}"),
		Ok(mut m) => {
			ensure!(valid, "C13:smm-json-accepts-invalid", "invalid SMM data accepted: {text}");
			let idx = c.index as usize;
			let mut model: Vec<f64> = buf[idx..].iter().chain(buf[..idx].iter()).copied().collect();
			ensure!(m.peek() as f64 == gen::vt(sel::median(&model)), "C13:smm-json-median", "restored SMM reports median {:e}, window {:?}", m.peek(), model);
			for &x in &c.cont {
				let x = gen::vt(x);
				model.remove(0);
				model.push(x);
				let got = m.next(&(x as ValueType)) as f64;
				ensure!(got == gen::vt(sel::median(&model)), "C13:smm-json-continuation", "restored SMM({n}) returns {got:e}, expected the median of {:?}", model);
			}
		}
	}
	st.nontrivial(engine::fnv(text.as_bytes()));
	st.sample("smm-json", || serde_json::to_value(c).unwrap());
	Ok(())
}

pub fn def(tier: Tier) -> PropertyDef {
	let mut checks: Vec<Box<dyn SubCheck>> = Vec::new();
	let max_len = tier.pick(120usize, 500);
	for name in mgen::all_kind_names() {
		let strat = (mgen::method_case(name, max_len), any::<u16>()).prop_map(|(m, at)| SnapCase { m, at });
		checks.push(pt(&format!("method_{name}"), tier.pick(2000, 50000), strat, run_snap));
	}
	for name in cfggen::NAMES {
		let strat = (cfggen::config_strategy(name, GenOpts::default()), gen::candle_stream(1, tier.pick(150, 500)), any::<u16>()).prop_map(|(cfg, s, at)| ISnapCase { cfg, s, at });
		checks.push(pt(&format!("indicator_{name}"), tier.pick(1000, 25000), strat, run_isnap));
		// snapshots taken deep inside a long one-sided trend (counters far from their initial values)
		let strat = (cfggen::config_strategy(name, GenOpts::default()), gen::trend_candle_stream(tier.pick(2000, 8000)), any::<u16>()).prop_map(|(cfg, s, at)| ISnapCase { cfg, s, at });
		checks.push(pt(&format!("trend_indicator_{name}"), tier.pick(40, 1000), strat, run_isnap));
	}
	checks.push(enumerate("plain_types", |_, _| Box::new(std::iter::once(0u8)), run_plain));
	for i in 0..2 {
		checks.push(pt(&format!("window_json_{i}"), tier.pick(60000, 300000), window_json_strategy(), run_window_json));
	}
	let smm = (proptest::collection::vec(prop_oneof![Just(-0.0f64), Just(0.0), -3.0f64..3.0, Just(1.0), Just(2.0)], 0..12), 0u32..14, proptest::collection::vec(prop_oneof![Just(0.0f64), -3.0f64..3.0, Just(1.0)], 0..20)).prop_map(|(buf, index, cont)| SmmJson { buf, index, cont });
	checks.push(pt("smm_json", tier.pick(60000, 300000), smm, run_smm_json));
	checks.extend(crate::fuzz_entry::corpus_checks("C13"));
	PropertyDef {
		id: "C13",
		level: "exploration",
		rule: "(Indicator snapshots are also taken deep inside long one-sided trend streams, <= 2000 bars / thorough 8000, sub-checks trend_indicator_*.) For each of the 44 method kinds + 15 MA kinds: generated valid parameters and streams, snapshot after k steps (k biased to 0..2n+2 so that every ring phase of short windows occurs, and uniform over the stream), serde_json (float_roundtrip) text -> restored instance: re-serializes identically, returns bit-identical outputs and peeks on the continuation, equal final state. The same for 36 indicator instances (Example's instance is not serializable) and all 37 configurations. All 513 Actions and 200 candles round-trip. Adversarial Window<u32> JSON (buffer lengths 0..300, index of any integer/float/string/null/missing, duplicate, unknown and reordered fields) and SMM JSON: Err, or Ok equal to the model rotation; valid data must be accepted; never a panic. Non-trivial = snapshot at a ring phase != 0 with a continuation whose output changes; distinct by hash.",
		assumptions: vec!["snapshots whose JSON contains a non-finite float (written as null) are outside the format's domain: skipped and counted".into()],
		exhaustive: false,
		checks,
	}
}
