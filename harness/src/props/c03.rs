//! C03 — recursive methods follow their documented recurrences.

use crate::approx::{allow, eps, quot_allow, Mag, K};
use crate::engine::{self, pt, CaseResult, Failure, PropertyDef, Stats, SubCheck, Tier};
use crate::ensure;
use crate::gen::{self, CandleStream, Domain, ValStream};
use crate::props::c02::clv_ref;
use proptest::prelude::*;
use serde::{Deserialize, Serialize};
use yata::core::{Method, PeriodType, ValueType};
use yata::methods::*;

/// plain exponential smoothing reference
#[derive(Clone, Copy)]
pub struct Ema {
	pub a: f64,
	pub v: f64,
}
impl Ema {
	pub fn new(a: f64, v: f64) -> Self {
		Self { a, v }
	}
	pub fn next(&mut self, x: f64) -> f64 {
		self.v += self.a * (x - self.v);
		self.v
	}
}

type Boxed = Box<dyn FnMut(ValueType) -> ValueType>;
type RefBox = Box<dyn FnMut(f64) -> f64>;

pub struct Spec {
	pub name: &'static str,
	pub max_n: u32,
	pub gain: f64,
	pub make: fn(PeriodType, ValueType) -> Result<Boxed, yata::core::Error>,
	pub reference: fn(usize, f64) -> RefBox,
}

macro_rules! mk {
	($ty:ty) => {
		|n, init| {
			let mut m = <$ty>::new(n, &init)?;
			Ok(Box::new(move |x: ValueType| m.next(&x)) as Boxed)
		}
	};
}

fn alpha_ema(n: usize) -> f64 {
	2.0 / (n as f64 + 1.0)
}

pub fn specs() -> Vec<Spec> {
	vec![
		Spec { name: "EMA", max_n: 254, gain: 1.0, make: mk!(EMA), reference: |n, i| { let mut e = Ema::new(alpha_ema(n), i); Box::new(move |x| e.next(x)) } },
		Spec { name: "DMA", max_n: 254, gain: 2.0, make: mk!(DMA), reference: |n, i| { let (mut e1, mut e2) = (Ema::new(alpha_ema(n), i), Ema::new(alpha_ema(n), i)); Box::new(move |x| e2.next(e1.next(x))) } },
		Spec { name: "TMA", max_n: 254, gain: 3.0, make: mk!(TMA), reference: |n, i| { let a = alpha_ema(n); let (mut e1, mut e2, mut e3) = (Ema::new(a, i), Ema::new(a, i), Ema::new(a, i)); Box::new(move |x| e3.next(e2.next(e1.next(x)))) } },
		Spec { name: "DEMA", max_n: 254, gain: 3.0, make: mk!(DEMA), reference: |n, i| { let a = alpha_ema(n); let (mut e1, mut e2) = (Ema::new(a, i), Ema::new(a, i)); Box::new(move |x| { let a1 = e1.next(x); let a2 = e2.next(a1); 2.0 * a1 - a2 }) } },
		Spec { name: "TEMA", max_n: 254, gain: 7.0, make: mk!(TEMA), reference: |n, i| { let a = alpha_ema(n); let (mut e1, mut e2, mut e3) = (Ema::new(a, i), Ema::new(a, i), Ema::new(a, i)); Box::new(move |x| { let a1 = e1.next(x); let a2 = e2.next(a1); let a3 = e3.next(a2); 3.0 * (a1 - a2) + a3 }) } },
		Spec { name: "RMA", max_n: 254, gain: 1.0, make: mk!(RMA), reference: |n, i| { let mut e = Ema::new(1.0 / n as f64, i); Box::new(move |x| e.next(x)) } },
		Spec { name: "WSMA", max_n: 127, gain: 1.0, make: mk!(WSMA), reference: |n, i| { let mut e = Ema::new(1.0 / n as f64, i); Box::new(move |x| e.next(x)) } },
		Spec { name: "Integral0", max_n: 0, gain: 0.0, make: mk!(Integral), reference: |_, _| { let mut s = 0.0; Box::new(move |x| { s += x; s }) } },
	]
}

pub fn run_spec(spec: &Spec, c: &ValStream, st: &mut Stats) -> CaseResult {
	let n = c.n as usize;
	let init = gen::vt(c.init);
	let xs: Vec<f64> = c.xs.iter().map(|&x| gen::vt(x)).collect();
	let made = (spec.make)(c.n as PeriodType, init as ValueType);
	if made.is_err() && c.n == top_length() {
		// the largest representable length is offered to every constructor; the recurrence is checked where it is accepted
		st.class("top-length-rejected");
		return Ok(());
	}
	let mut m = made.map_err(|e| Failure::new(format!("C03:{}:ctor", spec.name), format!("{}::new({}) failed: {e:?}", spec.name, n)))?;
	if c.n == top_length() {
		st.class("top-length-accepted");
	}
	let mut r = (spec.reference)(n, init);
	let mut mag = Mag::new(init);
	let mut abs_sum = 0.0;
	let mut distinct = std::collections::HashSet::new();
	let mut plateau_after_move = false;
	for (t, &x) in xs.iter().enumerate() {
		let mt = mag.add(x);
		abs_sum += x.abs();
		distinct.insert(x.to_bits());
		if t >= 2 && xs[t] == xs[t - 1] && xs[t - 1] != xs[t - 2] {
			plateau_after_move = true;
		}
		let got = m(x as ValueType) as f64;
		let e = r(x);
		let tol = if spec.max_n == 0 { K * eps() * (1 + t) as f64 * abs_sum } else { allow(n, t, mt, spec.gain) };
		if tol > 0.0 {
			st.ratio((got - e).abs() / tol);
		}
		ensure!((got - e).abs() <= tol, &format!("C03:{}:value", spec.name), "{}({}) step {}: got {:e} expected {:e} (|diff| {:e} > allowance {:e})", spec.name, n, t, got, e, (got - e).abs(), tol);
	}
	st.count("steps", xs.len() as u64);
	st.set_add("lengths", c.n as u64);
	if xs.len() > 2 * n.max(1) && distinct.len() >= 3 {
		st.nontrivial(engine::mix(c.n as u64, engine::fnv_f64s(&xs) ^ init.to_bits()));
	}
	if plateau_after_move {
		st.class("plateau-after-movement");
	}
	st.sample(spec.name, || serde_json::to_value(c).unwrap());
	Ok(())
}

/// `PeriodType::MAX` (255 by default): outside 1..=254, but a length several constructors accept; the documented
/// recurrence has to hold there as well (seed S146)
pub fn top_length() -> u32 {
	(PeriodType::MAX as u64).min(65_535) as u32
}

fn fixed_len_stream(n: u32, max_len: usize) -> impl Strategy<Value = ValStream> {
	gen::val_stream_n(n, max_len, Domain::Any, true)
}

fn len_stream(max_n: u32, max_len: usize) -> SBoxedStrategy<ValStream> {
	if max_n == 0 {
		// window-less: the length parameter is 0; segment lengths aimed at a nominal 8
		gen::val_stream_n(8, max_len, Domain::Any, true).prop_map(|mut s| { s.n = 0; s }).sboxed()
	} else if max_n == 127 {
		prop_oneof![4 => 1u32..=5, 4 => 6u32..=125, 2 => Just(126u32), 2 => Just(127u32), 1 => Just(top_length())]
			.prop_flat_map(move |n| fixed_len_stream(n, max_len))
			.sboxed()
	} else {
		prop_oneof![11 => gen::val_stream(1, max_len, Domain::Any, true), 1 => fixed_len_stream(top_length(), max_len)].sboxed()
	}
}

// ---------------------------------------------------------------------------------------
// TSI

#[derive(Serialize, Deserialize, Clone, Debug)]
pub struct TsiCase {
	pub short: u32,
	pub long: u32,
	pub s: ValStream,
}

fn tsi_strategy(max_len: usize, tier: Tier) -> impl Strategy<Value = TsiCase> {
	let grid: Vec<u32> = vec![1, 2, 3, 5, 13, 25, 100, 127, 128, 253, 254, top_length()];
	let g2 = grid.clone();
	let pairs = if tier == Tier::Quick {
		(proptest::sample::select(grid), proptest::sample::select(g2)).sboxed()
	} else {
		prop_oneof![1 => (proptest::sample::select(grid), proptest::sample::select(g2)), 2 => (1u32..=254, 1u32..=254)].sboxed()
	};
	pairs.prop_flat_map(move |(s, l)| (Just(s), Just(l), gen::val_stream_n(l.min(40), max_len, Domain::Any, true))).prop_map(|(short, long, s)| TsiCase { short, long, s })
}

pub fn run_tsi(c: &TsiCase, st: &mut Stats) -> CaseResult {
	let init = gen::vt(c.s.init);
	let xs: Vec<f64> = c.s.xs.iter().map(|&x| gen::vt(x)).collect();
	let made = TSI::new(c.short as PeriodType, c.long as PeriodType, &(init as ValueType));
	if made.is_err() && (c.short == top_length() || c.long == top_length()) {
		st.class("top-length-rejected");
		return Ok(());
	}
	let mut m = made.map_err(|e| Failure::new("C03:TSI:ctor", format!("{e:?}")))?;
	let (al, as_) = (alpha_ema(c.long as usize), alpha_ema(c.short as usize));
	let (mut n1, mut n2, mut d1, mut d2) = (Ema::new(al, 0.0), Ema::new(as_, 0.0), Ema::new(al, 0.0), Ema::new(as_, 0.0));
	let mut last = init;
	let mut mag = Mag::new(0.0);
	let nn = (c.long + c.short) as usize;
	let mut exempt = 0u64;
	let mut nontrivial = false;
	for (t, &x) in xs.iter().enumerate() {
		let d = x - last;
		last = x;
		let mt = mag.add(d);
		let num = n2.next(n1.next(d));
		let den = d2.next(d1.next(d.abs()));
		let got = m.next(&(x as ValueType)) as f64;
		let e = allow(nn, t, mt, 2.0);
		if den == 0.0 && mt == 0.0 {
			// no movement at all so far: documented output 0
			ensure!(got == 0.0, "C03:TSI:zero", "TSI({},{}) step {}: got {:e} on a stream that never moved", c.short, c.long, t, got);
			continue;
		}
		match quot_allow(num, den, e, e) {
			Some(tol) => {
				st.ratio((got - num / den).abs() / tol);
				ensure!((got - num / den).abs() <= tol, "C03:TSI:value", "TSI({},{}) step {}: got {:e} expected {:e} (allowance {:e})", c.short, c.long, t, got, num / den, tol);
				if t > 3 {
					nontrivial = true;
				}
			}
			None => exempt += 1,
		}
	}
	st.count("exempt_steps", exempt);
	st.count("steps", xs.len() as u64);
	if nontrivial {
		st.nontrivial(engine::mix((c.short as u64) << 16 | c.long as u64, engine::fnv_f64s(&xs)));
	}
	st.class(if c.short > c.long { "short>long" } else { "short<=long" });
	st.sample("TSI", || serde_json::to_value(c).unwrap());
	Ok(())
}

// ---------------------------------------------------------------------------------------
// Vidya

pub fn run_vidya(c: &ValStream, st: &mut Stats) -> CaseResult {
	let n = c.n as usize;
	let init = gen::vt(c.init);
	let xs: Vec<f64> = c.xs.iter().map(|&x| gen::vt(x)).collect();
	let mut m = Vidya::new(c.n as PeriodType, &(init as ValueType)).map_err(|e| Failure::new("C03:Vidya:ctor", format!("{e:?}")))?;
	let f = 2.0 / (n as f64 + 1.0);
	// changes: ch[t] = x_t - x_{t-1}, x_{-1} = init
	let mut ch: Vec<f64> = Vec::with_capacity(xs.len());
	let mut prev_out = init;
	let mut err = 0.0f64; // carried allowance of the reference output
	let mut mag = Mag::new(init);
	let mut magd = Mag::new(0.0);
	let mut plateau_after_move = false;
	let mut moved = false;
	for (t, &x) in xs.iter().enumerate() {
		let mt = mag.add(x);
		let d = x - if t == 0 { init } else { xs[t - 1] };
		ch.push(d);
		let md = magd.add(d);
		moved |= d != 0.0;
		let lo = (t + 1).saturating_sub(n);
		let (mut up, mut dn) = (0.0, 0.0);
		for &q in &ch[lo..=t] {
			if q > 0.0 {
				up += q;
			} else {
				dn -= q;
			}
		}
		if moved && up == 0.0 && dn == 0.0 {
			plateau_after_move = true;
		}
		let got = m.next(&(x as ValueType)) as f64;
		let a_sum = allow(n, t, md, n as f64) + 2.0 * eps() * mt;
		let a_out = allow(n, t, mt, 1.0);
		let hull_lo = x.min(prev_out) - err - a_out;
		let hull_hi = x.max(prev_out) + err + a_out;
		ensure!(got.is_finite(), "C03:Vidya:non-finite", "Vidya({}) step {}: output {:?}", n, t, got);
		if !moved {
			// nothing ever changed: both sums are exactly zero, output is the input
			ensure!(got == x, "C03:Vidya:constant", "Vidya({}) step {}: got {:e} on a constant stream of {:e}", n, t, got, x);
			prev_out = x;
			continue;
		}
		if ch[lo..=t].iter().all(|q| *q == 0.0) {
			// no change at all inside the window: the documented output is the input itself
			ensure!(got == x, "C03:Vidya:flat-window", "Vidya({}) step {}: all of the last {} changes are zero, output {:e} expected the input {:e}", n, t, n, got, x);
			prev_out = x;
			err = 0.0;
			st.count("flat_window_steps_after_movement", 1);
			continue;
		}
		if up <= 2.0 * a_sum && dn <= 2.0 * a_sum {
			// the all-zero test of the recurrence is ambiguous (sums within their allowance of 0):
			// the output must still be an average of x and the previous output
			ensure!(got >= hull_lo && got <= hull_hi, "C03:Vidya:hull", "Vidya({}) step {}: got {:e} outside hull [{:e}, {:e}] of input and previous output while both change sums are (within rounding) zero", n, t, got, hull_lo, hull_hi);
			// the branch taken is undetermined: continue from the implementation's (valid) output
			prev_out = got;
			err = a_out;
			st.count("reseeded_steps_ambiguous_zero_test", 1);
			continue;
		}
		match quot_allow((up - dn).abs(), up + dn, a_sum, a_sum) {
			Some(e_cmo) => {
				let cmo = (up - dn).abs() / (up + dn);
				let k = f * cmo;
				let e_ref = x * k + (1.0 - k) * prev_out;
				err = (1.0 - k).abs() * err + (x - prev_out).abs() * f * e_cmo + 8.0 * eps() * mt;
				let tol = err + a_out;
				st.ratio((got - e_ref).abs() / tol);
				ensure!((got - e_ref).abs() <= tol, "C03:Vidya:value", "Vidya({}) step {}: got {:e} expected {:e} (|diff| {:e} > allowance {:e}); cmo {:e}", n, t, got, e_ref, (got - e_ref).abs(), tol, cmo);
				prev_out = e_ref;
			}
			None => {
				// ill-conditioned CMO: re-seed from the implementation if it is a valid average
				ensure!(got >= hull_lo && got <= hull_hi, "C03:Vidya:hull", "Vidya({}) step {}: got {:e} outside hull [{:e}, {:e}] (ill-conditioned CMO)", n, t, got, hull_lo, hull_hi);
				prev_out = got;
				err = a_out;
				st.count("exempt_steps", 1);
			}
		}
	}
	st.count("steps", xs.len() as u64);
	st.set_add("lengths", c.n as u64);
	if xs.len() > n && moved {
		st.nontrivial(engine::mix(c.n as u64, engine::fnv_f64s(&xs) ^ init.to_bits()));
	}
	if plateau_after_move {
		st.class("plateau-after-movement");
	}
	st.sample("Vidya", || serde_json::to_value(c).unwrap());
	Ok(())
}

// ---------------------------------------------------------------------------------------
// candle-input methods

/// 1 when the stream's first candle is used as the construction value only (decided by the generated length
/// class, i.e. by the generator, so that it shrinks and replays with the case)
fn independent_seed(c: &CandleStream) -> usize {
	(c.n % 2 == 1 && c.cs.len() > 2) as usize
}

fn run_tr(c: &CandleStream, st: &mut Stats) -> CaseResult {
	let first = c.cs[0].candle();
	let mut m = TR::new(&first).map_err(|e| Failure::new("C03:TR:ctor", format!("{e:?}")))?;
	let mut pc = c.cs[0].c;
	// the construction candle is the prehistory: in half of the cases it is NOT fed again (a seed that is
	// re-fed first hides what the constructor took from it, since its own close lies inside its own range)
	let skip = independent_seed(c);
	st.class(if skip == 1 { "seed candle independent of the first input" } else { "seed candle fed again first" });
	for (t, k) in c.cs.iter().enumerate().skip(skip) {
		let got = m.next(&k.candle()) as f64;
		let e = k.h.max(pc) - k.l.min(pc);
		let tol = 4.0 * eps() * (k.h.abs() + pc.abs());
		ensure!((got - e).abs() <= tol, "C03:TR:value", "TR step {}: got {:e} expected {:e}", t, got, e);
		ensure!(got >= 0.0, "C03:TR:negative", "TR step {}: {:e} < 0", t, got);
		pc = k.c;
	}
	st.count("steps", c.cs.len() as u64);
	if c.cs.len() > 3 {
		st.nontrivial(engine::fnv(format!("{:?}", &c.cs[..c.cs.len().min(16)]).as_bytes()));
	}
	st.sample("TR", || serde_json::to_value(c).unwrap());
	Ok(())
}

fn run_heikin(c: &CandleStream, st: &mut Stats) -> CaseResult {
	let first = c.cs[0].candle();
	let mut m = HeikinAshi::new((), &first).map_err(|e| Failure::new("C03:HeikinAshi:ctor", format!("{e:?}")))?;
	let ohlc4 = |k: &gen::C5| (k.h + k.l + k.c + k.o) * 0.25;
	let mut next_open = ohlc4(&c.cs[0]);
	let mut mag = Mag::new(c.cs[0].h);
	let skip = independent_seed(c);
	for (t, k) in c.cs.iter().enumerate().skip(skip) {
		let mt = mag.add(k.h);
		let got = m.next(&k.candle());
		let open = next_open;
		let close = ohlc4(k);
		next_open = (open + close) * 0.5;
		let tol = 16.0 * eps() * mt;
		ensure!((got.open as f64 - open).abs() <= tol, "C03:HeikinAshi:open", "step {}: open {:e} expected {:e}", t, got.open, open);
		ensure!((got.close as f64 - close).abs() <= tol, "C03:HeikinAshi:close", "step {}: close {:e} expected {:e}", t, got.close, close);
		ensure!((got.high as f64 - k.h.max(open)).abs() <= tol, "C03:HeikinAshi:high", "step {}: high {:e} expected {:e}", t, got.high, k.h.max(open));
		ensure!((got.low as f64 - k.l.min(open)).abs() <= tol, "C03:HeikinAshi:low", "step {}: low {:e} expected {:e}", t, got.low, k.l.min(open));
		ensure!(got.volume as f64 == k.v, "C03:HeikinAshi:volume", "step {}: volume {:e} expected {:e}", t, got.volume, k.v);
	}
	st.count("steps", c.cs.len() as u64);
	if c.cs.len() > 3 {
		st.nontrivial(engine::fnv(format!("{:?}", &c.cs[..c.cs.len().min(16)]).as_bytes()));
	}
	st.sample("HeikinAshi", || serde_json::to_value(c).unwrap());
	Ok(())
}

fn run_adi0(c: &CandleStream, st: &mut Stats) -> CaseResult {
	let first = c.cs[0].candle();
	let mut m = ADI::new(0, &first).map_err(|e| Failure::new("C03:ADI0:ctor", format!("{e:?}")))?;
	let mut s = 0.0;
	let mut abs_sum = 0.0;
	let mut e_sum = 0.0;
	for (t, k) in c.cs.iter().enumerate() {
		let (v, e) = clv_ref(k);
		s += v * k.v;
		abs_sum += (v * k.v).abs();
		e_sum += e * k.v;
		let got = m.next(&k.candle()) as f64;
		let tol = K * eps() * (1 + t) as f64 * abs_sum + e_sum;
		if tol > 0.0 {
			st.ratio((got - s).abs() / tol);
		}
		ensure!((got - s).abs() <= tol, "C03:ADI0:value", "ADI(0) step {}: got {:e} expected {:e} (allowance {:e})", t, got, s, tol);
	}
	st.count("steps", c.cs.len() as u64);
	if c.cs.len() > 3 {
		st.nontrivial(engine::fnv(format!("{:?}", &c.cs[..c.cs.len().min(16)]).as_bytes()));
	}
	st.sample("ADI0", || serde_json::to_value(c).unwrap());
	Ok(())
}

// ---------------------------------------------------------------------------------------
// bounded-exhaustive small scope: dyadic data on dyadic smoothing constants

/// Every stream of length <= 6 (thorough 8) over {0, 1, 2, 4} for the lengths whose smoothing constant is a power
/// of two (1, 3, 7 for the EMA family: 2/(n+1); 1, 2, 4 for RMA/WSMA: 1/n) and two others, with every letter as
/// construction value. On such data the recurrences are exact, so that an input can *equal* the current state
/// bit for bit - the ties that real-valued generators never produce.
fn exhaustive_small(tier: Tier, spec_index: usize) -> Box<dyn Iterator<Item = ValStream>> {
	let letters = [0.0f64, 1.0, 2.0, 4.0];
	let maxl = tier.pick(6u32, 8);
	let max_n = specs()[spec_index].max_n;
	let mut out = Vec::new();
	for l in 1..=maxl {
		for code in 0..4u64.pow(l) {
			let xs: Vec<f64> = (0..l).map(|k| letters[((code >> (2 * k)) & 3) as usize]).collect();
			for n in [1u32, 2, 3, 4, 7] {
				if n > max_n {
					continue;
				}
				for init in letters {
					out.push(ValStream { n, init, xs: xs.clone() });
				}
			}
		}
	}
	Box::new(out.into_iter())
}

pub fn def(tier: Tier) -> PropertyDef {
	let mut checks: Vec<Box<dyn SubCheck>> = Vec::new();
	let max_len = tier.pick(512usize, 2048);
	let cases = tier.pick(12000u32, 300000);
	for spec in specs() {
		let name = spec.name;
		let max_n = spec.max_n;
		checks.push(pt(name, cases, len_stream(max_n, max_len), move |c: &ValStream, st| run_spec(&spec, c, st)));
	}
	for (i, spec) in specs().into_iter().enumerate() {
		let name = spec.name;
		checks.push(engine::enumerate(&format!("exhaustive_small_{name}"), move |tier, _| exhaustive_small(tier, i), move |c: &ValStream, st| run_spec(&spec, c, st)));
	}
	checks.push(pt("TSI", cases, tsi_strategy(max_len, tier), run_tsi));
	checks.push(pt("Vidya", cases, gen::val_stream(1, max_len, Domain::Any, true), run_vidya));
	checks.push(pt("TR", cases, gen::candle_stream(1, max_len.min(600)), run_tr));
	checks.push(pt("HeikinAshi", cases, gen::candle_stream(1, max_len.min(600)), run_heikin));
	checks.push(pt("ADI0", cases, gen::candle_stream(1, max_len), run_adi0));
	PropertyDef {
		id: "C03",
		level: "exploration",
		rule: "Bounded-exhaustive (exhaustive_small_*): every stream of length <= 6 (thorough 8) over {0,1,2,4} for n in {1,2,3,4,7} with every letter as construction value, for each recurrence of the EMA family - dyadic data on dyadic smoothing constants, where an input can equal the current state bit for bit. proptest: the same segment-built streams as C02 (<= 512 / 2048 steps), all lengths 1..=254 (1..=127 for WSMA) and PeriodType::MAX wherever the constructor accepts it, TSI on a boundary grid of (short,long) pairs incl. short>long (thorough: also random pairs), valid candle streams for TR/HeikinAshi/ADI(0). Oracle: the documented recurrence re-implemented independently (f64), compared at every step inside the allowance of DESIGN 4.2 (quotient rule for TSI; Vidya: change sums from scratch, carried error, hull predicate on ill-conditioned steps). Non-trivial = stream longer than 2n with >= 3 distinct values (Vidya/TSI: movement present); class plateau-after-movement is counted.",
		assumptions: vec!["magnitude domain of DESIGN §3; K = 256".into(), "Vidya: on steps where both change sums are within their allowance of zero after movement (the recurrence's branch is undetermined) or the CMO quotient is ill-conditioned, the output must lie in the hull of input and previous output and the reference is re-seeded from it; counted as reseeded/exempt steps".into()],
		exhaustive: false,
		checks,
	}
}
