//! C14 — crossing and reversal detectors are definitional for any stream length.

use crate::engine::{self, enumerate, pt, CaseResult, Failure, PropertyDef, Stats, SubCheck, Tier};
use crate::ensure;
use crate::gen::{self, Domain, ValStream};
use proptest::prelude::*;
use serde::{Deserialize, Serialize};
use yata::core::{Action, Method, PeriodType, ValueType};
use yata::methods::{Cross, CrossAbove, CrossUnder, LowerReversalSignal, ReversalSignal, UpperReversalSignal};

fn same(a: Action, b: Action) -> bool {
	match (a, b) {
		(Action::None, Action::None) => true,
		(Action::Buy(x), Action::Buy(y)) | (Action::Sell(x), Action::Sell(y)) => x == y,
		_ => false,
	}
}

#[derive(Serialize, Deserialize, Clone, Debug)]
pub struct CrossCase {
	/// (value, base) pairs; the first pair is the constructor argument as well
	pub pairs: Vec<(f64, f64)>,
	/// use Default (previous difference 0) instead of new(first pair)
	pub default_ctor: bool,
}

fn run_cross(c: &CrossCase, st: &mut Stats) -> CaseResult {
	let p: Vec<(ValueType, ValueType)> = c.pairs.iter().map(|x| (x.0 as ValueType, x.1 as ValueType)).collect();
	let (mut ab, mut un, mut cr, mut sw);
	let mut prev: ValueType;
	if c.default_ctor {
		ab = CrossAbove::default();
		un = CrossUnder::default();
		cr = Cross::default();
		sw = Cross::default();
		prev = 0.0;
	} else {
		ab = CrossAbove::new((), &p[0]).map_err(|e| Failure::new("C14:ctor", format!("{e:?}")))?;
		un = CrossUnder::new((), &p[0]).map_err(|e| Failure::new("C14:ctor", format!("{e:?}")))?;
		cr = Cross::new((), &p[0]).map_err(|e| Failure::new("C14:ctor", format!("{e:?}")))?;
		sw = Cross::new((), &(p[0].1, p[0].0)).map_err(|e| Failure::new("C14:ctor", format!("{e:?}")))?;
		prev = p[0].0 - p[0].1;
	}
	let mut touch = false;
	let mut fired = 0;
	// with new(first pair): in half of the cases that pair is "the previous step" only and is not fed again
	// (fed again first, its difference compares with itself and the constructor's state stays invisible)
	let skip = (!c.default_ctor && p.len() % 2 == 1 && p.len() > 2) as usize;
	for (t, &(v, b)) in p.iter().enumerate().skip(skip) {
		let d = v - b;
		let exp_above = prev < 0.0 && d >= 0.0;
		let exp_under = prev > 0.0 && d <= 0.0;
		let ga = ab.next(&(v, b));
		let gu = un.next(&(v, b));
		let gc = cr.next(&(v, b));
		let gs = sw.next(&(b, v));
		let ea = if exp_above { Action::BUY_ALL } else { Action::None };
		let eu = if exp_under { Action::BUY_ALL } else { Action::None };
		let ec = match (exp_above, exp_under) {
			(true, false) => Action::BUY_ALL,
			(false, true) => Action::SELL_ALL,
			_ => Action::None,
		};
		ensure!(same(ga, ea), "C14:cross-above", "CrossAbove step {}: {:?} expected {:?} (previous difference {:e}, now {:e})", t, ga, ea, prev, d);
		ensure!(same(gu, eu), "C14:cross-under", "CrossUnder step {}: {:?} expected {:?} (previous difference {:e}, now {:e})", t, gu, eu, prev, d);
		ensure!(same(gc, ec), "C14:cross", "Cross step {}: {:?} expected {:?} (previous difference {:e}, now {:e})", t, gc, ec, prev, d);
		ensure!(same(gs, -ec), "C14:cross-swapped", "Cross on swapped series step {}: {:?} expected {:?}", t, gs, -ec);
		if d == 0.0 {
			touch = true;
		}
		if exp_above || exp_under {
			fired += 1;
		}
		prev = d;
	}
	st.count("steps", p.len() as u64);
	st.count("crossings", fired);
	if touch && p.len() > 2 {
		st.nontrivial(engine::fnv(format!("{:?}", c).as_bytes()));
	}
	st.class(if touch { "with-touch" } else { "no-touch" });
	st.sample(if c.default_ctor { "cross/default" } else { "cross/new" }, || serde_json::to_value(c).unwrap());
	Ok(())
}

fn cross_strategy(max_len: usize) -> impl Strategy<Value = CrossCase> {
	// differences from a small alphabet around zero on an exactly representable base
	let lattice = (proptest::collection::vec((0u8..9, -4i32..=4), 1..max_len), any::<bool>()).prop_map(|(v, d)| {
		let alpha = [-2.0, -1.0, -0.5, -0.0, 0.0, 0.0, 0.5, 1.0, 2.0];
		CrossCase { pairs: v.into_iter().map(|(i, b)| (b as f64 + alpha[i as usize], b as f64)).collect(), default_ctor: d }
	});
	// real-valued pairs incl. identical series and 1-ulp differences
	let reals = (gen::spec_strategy(6), gen::spec_strategy(6), proptest::collection::vec(0u8..6, 1..max_len), any::<bool>()).prop_map(move |(a, b, sel, d)| {
		let xs = gen::build_stream(&a, 8, max_len, Domain::Any);
		let ys = gen::build_stream(&b, 8, max_len, Domain::Any);
		let n = xs.len().min(ys.len()).min(sel.len());
		let pairs = (0..n)
			.map(|i| {
				let x = xs[i];
				match sel[i] {
					0 => (x, x),
					1 => (x, gen::vt(f64::from_bits(gen::vt(x).to_bits().wrapping_add(1)))),
					2 => (x, gen::vt(f64::from_bits(gen::vt(x).to_bits().wrapping_sub(1)))),
					_ => (x, ys[i]),
				}
			})
			.map(|(a, b)| (gen::vt(a), if b.is_finite() { gen::vt(b) } else { gen::vt(a) }))
			.collect();
		CrossCase { pairs, default_ctor: d }
	});
	prop_oneof![lattice, reals]
}

// ---------------------------------------------------------------------------------------
// reversal

#[derive(Serialize, Deserialize, Clone, Debug)]
pub struct RevCase {
	pub left: u32,
	pub right: u32,
	pub xs: Vec<f64>,
}

/// newest-wins arg-extremum position of the window ending at t (positions < 0 hold x0)
fn pivot_pos(xs: &[f64], t: usize, l: usize, upper: bool) -> i64 {
	let mut best_pos = t as i64;
	let mut best = xs[t];
	// scan from newest to oldest, strictly better moves (so the newest of equals wins)
	for age in 1..l {
		let pos = t as i64 - age as i64;
		let v = if pos < 0 { xs[0] } else { xs[pos as usize] };
		let better = if upper { v > best } else { v < best };
		if better {
			best = v;
			best_pos = pos;
		}
	}
	// a prehistory position (< 0) can never win: position 0 holds the same value x0, is newer and is
	// inside every window that reaches back before the stream
	best_pos
}

fn run_rev(c: &RevCase, st: &mut Stats) -> CaseResult {
	let xs: Vec<f64> = c.xs.iter().map(|&x| gen::vt(x)).collect();
	let (l, r) = (c.left as PeriodType, c.right as PeriodType);
	let x0 = xs[0] as ValueType;
	let mut up = UpperReversalSignal::new(l, r, &x0).map_err(|e| Failure::new("C14:ctor", format!("Upper({},{}) {e:?}", c.left, c.right)))?;
	let mut lo = LowerReversalSignal::new(l, r, &x0).map_err(|e| Failure::new("C14:ctor", format!("{e:?}")))?;
	let mut both = ReversalSignal::new(l, r, &x0).map_err(|e| Failure::new("C14:ctor", format!("{e:?}")))?;
	let len = (c.left + c.right + 1) as usize;
	let right = c.right as usize;
	let mut plateau_pivot = false;
	let mut fired = 0u64;
	for t in 0..xs.len() {
		let eu = t >= right && pivot_pos(&xs, t, len, true) == t as i64 - right as i64;
		let el = t >= right && pivot_pos(&xs, t, len, false) == t as i64 - right as i64;
		let x = xs[t] as ValueType;
		let gu = up.next(&x);
		let gl = lo.next(&x);
		let gb = both.next(&x);
		let cls = if t > PeriodType::MAX as usize { "late" } else { "early" };
		let a = |b: bool| if b { Action::BUY_ALL } else { Action::None };
		ensure!(same(gu, a(eu)), &format!("C14:upper-reversal:{cls}"), "UpperReversalSignal({},{}) step {}: {:?} expected {:?}", c.left, c.right, t, gu, a(eu));
		ensure!(same(gl, a(el)), &format!("C14:lower-reversal:{cls}"), "LowerReversalSignal({},{}) step {}: {:?} expected {:?}", c.left, c.right, t, gl, a(el));
		let eb = match (el, eu) {
			(true, false) => Action::BUY_ALL,
			(false, true) => Action::SELL_ALL,
			(false, false) => Action::None,
			(true, true) => Action::Buy(0),
		};
		ensure!(gb == eb && gb.is_none() == eb.is_none(), &format!("C14:reversal-signal:{cls}"), "ReversalSignal({},{}) step {}: {:?} expected {:?}", c.left, c.right, t, gb, eb);
		if eu || el {
			fired += 1;
			// a plateau across the pivot: equal value next to the pivot inside the window
			if t >= right + 1 && xs[t - right] == xs[t - right - 1] {
				plateau_pivot = true;
			}
		}
	}
	st.count("steps", xs.len() as u64);
	st.count("reversals", fired);
	if (plateau_pivot || xs.len() > 256) && fired > 0 {
		st.nontrivial(engine::mix((c.left as u64) << 16 | c.right as u64, engine::fnv_f64s(&xs)));
	}
	st.class(if xs.len() > 256 { "len>256" } else { "len<=256" });
	if xs.len() > 65536 + 300 {
		st.class("len>65536");
	}
	st.sample(if xs.len() > 256 { "reversal/long" } else { "reversal/short" }, || serde_json::to_value(c).unwrap());
	Ok(())
}

fn lr_strategy() -> impl Strategy<Value = (u32, u32)> {
	prop_oneof![
		4 => (1u32..=4, 1u32..=4),
		3 => (1u32..=20, 1u32..=20),
		2 => (1u32..=126, 1u32..=126),
		1 => (1u32..=252).prop_flat_map(|l| (Just(l), 1u32..=(253 - l))),
		1 => prop_oneof![Just((1u32, 252u32)), Just((252u32, 1u32)), Just((126u32, 127u32)), Just((127u32, 126u32))],
	]
}

fn rev_strategy(max_len: usize) -> impl Strategy<Value = RevCase> {
	let alpha = (lr_strategy(), proptest::collection::vec(0u8..5, 1..max_len)).prop_map(|((left, right), v)| {
		let a = [-1.0, -0.0, 0.0, 1.0, 2.0];
		RevCase { left, right, xs: v.into_iter().map(|i| a[i as usize]).collect() }
	});
	let segs = lr_strategy().prop_flat_map(move |(left, right)| (Just(left), Just(right), gen::val_stream_n((left + right + 1).min(64), max_len, Domain::Any, false))).prop_map(|(left, right, s): (u32, u32, ValStream)| RevCase { left, right, xs: s.xs });
	prop_oneof![alpha, segs]
}

/// periodic long streams far beyond PeriodType::MAX (and beyond 2^16 in the thorough tier)
fn long_rev_strategy(len: usize) -> impl Strategy<Value = RevCase> {
	(prop_oneof![(1u32..=4, 1u32..=4), (1u32..=40, 1u32..=40)], proptest::collection::vec(0u8..7, 3..40)).prop_map(move |((left, right), pat)| {
		let a = [-2.0, -1.0, 0.0, 1.0, 2.0, 3.0, 1.0];
		let xs = (0..len).map(|i| a[pat[(i + i / pat.len() / 3) % pat.len()] as usize] + ((i / 97) % 3) as f64).collect();
		RevCase { left, right, xs }
	})
}

fn exhaustive_rev(tier: Tier, part: u32, parts: u32) -> Box<dyn Iterator<Item = RevCase>> {
	let maxl = tier.pick(8u32, 9);
	let letters = [0.0, 1.0, 2.0];
	let mut out = Vec::new();
	for l in 1..=maxl {
		for code in 0..3u32.pow(l) {
			if code % parts != part {
				continue;
			}
			let mut k = code;
			let xs: Vec<f64> = (0..l)
				.map(|_| {
					let d = k % 3;
					k /= 3;
					letters[d as usize]
				})
				.collect();
			for left in 1..=4 {
				for right in 1..=4 {
					out.push(RevCase { left, right, xs: xs.clone() });
				}
			}
		}
	}
	Box::new(out.into_iter())
}

pub fn def(tier: Tier) -> PropertyDef {
	let mut checks: Vec<Box<dyn SubCheck>> = Vec::new();
	for i in 0..2 {
		checks.push(pt(&format!("cross_{i}"), tier.pick(40000, 1000000), cross_strategy(tier.pick(120, 600)), run_cross));
	}
	let parts = 4u32;
	for part in 0..parts {
		checks.push(enumerate(&format!("reversal_exhaustive_{part}"), move |tier, _| exhaustive_rev(tier, part, parts), run_rev));
	}
	for i in 0..4 {
		checks.push(pt(&format!("reversal_{i}"), tier.pick(15000, 300000), rev_strategy(tier.pick(600, 1500)), run_rev));
	}
	for i in 0..4 {
		checks.push(pt(&format!("reversal_long_{i}"), tier.pick(16, 100), long_rev_strategy(tier.pick(3000, 70000)), run_rev));
	}
	PropertyDef {
		id: "C14",
		level: "exploration",
		rule: "Cross detectors: proptest pairs of streams from a difference alphabet {+-2,+-1,+-0.5,+-0} on exact bases (touches, repeated zeros, sign alternation), real-valued pairs incl. identical series and +-1 ulp differences, both constructors; oracle on the computed difference d_t (CrossAbove iff d_{t-1}<0 and d_t>=0, mirrored, Cross = above - under, swapped series negate). Reversal: every stream of length <= 8 (9) over {0,1,2} for all (left,right) in 1..=4^2 exhaustively, proptest alphabets/segment streams with random (left,right) up to left+right = 253, periodic streams of 3000 (thorough 70000 > 2^16) steps; oracle = newest-wins arg-extremum of the last left+right+1 inputs (prehistory = x0) is the element `right` steps back. Non-trivial = a touch (d = 0), or a reversal whose pivot sits on a plateau, or a fired reversal in a stream longer than 256.",
		assumptions: vec!["reversal detectors are created from the first input (API contract), so the prehistory equals x0".into()],
		exhaustive: false,
		checks,
	}
}
