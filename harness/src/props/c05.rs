//! C05 — indicator raw values equal the documented formulas (DESIGN §6), computed independently
//! from the candle history with naive reference methods in value±allowance arithmetic.

use crate::approx::{allow, eps, Mag, K};
use crate::cfggen::{self, CfgCase, GenOpts};
use crate::engine::{self, pt, CaseResult, Failure, PropertyDef, Stats, SubCheck, Tier};
use crate::gen::{self, CandleStream, C5};
use crate::props::c02::clv_ref;
use crate::refi::{self, hi, lo, ma_len, ma_ref, Ap, EmaRef, Hist, RefAvg, Tri, WinAvg};
use crate::refm::win;
use proptest::prelude::*;
use serde::{Deserialize, Serialize};
use serde_json::Value;
use yata::core::{Source, ValueType, OHLCV};

pub enum EV {
	V(Ap),
	/// ill-conditioned or undecidable on this step: exempt (counted)
	Skip,
}
/// the reference state became undecidable: nothing after this step is compared
pub struct Cut(pub &'static str);
type R = Result<Vec<EV>, Cut>;

pub trait IndRef {
	/// expected values for this step; `got` are the returned values (used only to follow an
	/// undecidable branch / re-seed a state after an exempt step, never as the expectation)
	fn next(&mut self, c: &C5, got: &[f64]) -> R;
}

fn src(c: &C5, cj: &Value, key: &str) -> f64 {
	let s: Source = cj[key].as_str().unwrap_or("close").parse().unwrap_or(Source::Close);
	c.candle().source(s) as f64
}
fn fz(cj: &Value, k: &str) -> f64 {
	(cj[k].as_f64().unwrap_or(0.0) as ValueType) as f64
}
fn uz(cj: &Value, k: &str) -> usize {
	cj[k].as_u64().unwrap_or(0) as usize
}
fn ex(v: f64) -> Ap {
	Ap::exact(v)
}
/// result of one or two correctly rounded operations on exact inputs
fn rounded(v: f64) -> Ap {
	Ap::new(v, 4.0 * eps() * v.abs())
}

// --------------------------------------------------------------------------------------
// method-level references on exact inputs

struct TrRef {
	pc: f64,
}
impl TrRef {
	fn next(&mut self, c: &C5) -> Ap {
		let v = c.h.max(self.pc) - c.l.min(self.pc);
		self.pc = c.c;
		rounded(v)
	}
}

/// rate of change over n steps of an exact positive series
struct RocRef {
	h: Hist<f64>,
}
impl RocRef {
	fn new(n: usize, x0: f64) -> Self {
		Self { h: Hist::new(n, x0) }
	}
	fn next(&mut self, x: f64) -> Ap {
		let p = self.h.push(x);
		let r = (x - p) / p;
		Ap::new(r, 8.0 * eps() * (r.abs() + 1.0))
	}
}

/// from-scratch sample deviation of the last n exact values
struct StDevRef {
	h: Hist<f64>,
	t: usize,
	mag: Mag,
}
impl StDevRef {
	fn new(n: usize, x0: f64) -> Self {
		Self { h: Hist::new(n, x0), t: 0, mag: Mag::new(x0) }
	}
	fn next(&mut self, x: Ap) -> Ap {
		self.h.push(x.v);
		let m = self.mag.add(x.v.abs() + x.e);
		let w: Vec<f64> = self.h.iter().copied().collect();
		let var = win::var_sample(&w);
		let a = allow(w.len(), self.t, m * m, 1.0) + 4.0 * m * x.e;
		self.t += 1;
		Ap::new(var, a).sqrt()
	}
}

/// CCI of the last n exact values: (x - mean) / mean absolute deviation, 0 when there is no deviation
struct CciRef {
	h: Hist<f64>,
	t: usize,
	mag: Mag,
	x0: f64,
	/// an input different from the construction value has been seen
	changed: bool,
}
impl CciRef {
	fn new(n: usize, x0: f64) -> Self {
		Self { h: Hist::new(n, x0), t: 0, mag: Mag::new(x0), x0, changed: false }
	}
	fn next(&mut self, x: f64) -> Option<Ap> {
		self.h.push(x);
		let m = self.mag.add(x);
		let w: Vec<f64> = self.h.iter().copied().collect();
		let n = w.len();
		self.t += 1;
		self.changed |= x != self.x0;
		// exactly 0 only while nothing but the construction value has ever been seen (no running sum has moved);
		// any later flat window - always, for n = 1 - is a quotient of rounding residues: undecidable here, the
		// residue-ratio findings of C07/C08 record it
		if !self.changed {
			return Some(ex(0.0));
		}
		let mean = Ap::new(win::mean(&w), allow(n, self.t, m, 1.0));
		let mad = Ap::new(win::mean_abs_dev(&w), allow(n, self.t, m, 2.0));
		ex(x).sub(mean).div(mad)
	}
}

struct TsiRef {
	last: f64,
	n1: EmaRef,
	n2: EmaRef,
	d1: EmaRef,
	d2: EmaRef,
}
impl TsiRef {
	fn new(short: usize, long: usize, x0: f64) -> Self {
		let (al, as_) = (2.0 / (long as f64 + 1.0), 2.0 / (short as f64 + 1.0));
		Self { last: x0, n1: EmaRef::new(al, long, ex(0.0)), n2: EmaRef::new(as_, short, ex(0.0)), d1: EmaRef::new(al, long, ex(0.0)), d2: EmaRef::new(as_, short, ex(0.0)) }
	}
	fn next(&mut self, x: f64) -> Option<Ap> {
		let d = rounded(x - self.last);
		self.last = x;
		let num = self.n2.next(self.n1.next(d));
		let den = self.d2.next(self.d1.next(d.abs()));
		if den.v == 0.0 && num.v == 0.0 && d.v == 0.0 && self.n1_quiet() {
			return Some(ex(0.0));
		}
		num.div(den)
	}
	fn n1_quiet(&self) -> bool {
		true
	}
}

/// sum of the last n exact values with the allowance of a running sum
struct SumRef {
	h: Hist<f64>,
	t: usize,
	mag: Mag,
}
impl SumRef {
	fn new(n: usize, x0: f64) -> Self {
		Self { h: Hist::new(n, x0), t: 0, mag: Mag::new(x0) }
	}
	fn next(&mut self, x: f64) -> Ap {
		self.h.push(x);
		let m = self.mag.add(x);
		let n = self.h.buf.len();
		self.t += 1;
		Ap::new(self.h.iter().sum(), allow(n, self.t, m, n as f64))
	}
}

struct Delay<T: Copy>(Hist<T>);
impl<T: Copy> Delay<T> {
	fn new(n: usize, init: T) -> Self {
		Delay(Hist::new(n, init))
	}
	fn next(&mut self, x: T) -> T {
		self.0.push(x)
	}
}

/// highest / lowest of the last n values known up to an error
struct SelAp {
	h: Hist<Ap>,
	upper: bool,
}
impl SelAp {
	fn new(n: usize, init: Ap, upper: bool) -> Self {
		Self { h: Hist::new(n, init), upper }
	}
	fn next(&mut self, x: Ap) -> Ap {
		self.h.push(x);
		let e = self.h.iter().fold(0.0f64, |m, a| m.max(a.e));
		let v = if self.upper { self.h.iter().fold(f64::NEG_INFINITY, |m, a| m.max(a.v)) } else { self.h.iter().fold(f64::INFINITY, |m, a| m.min(a.v)) };
		Ap::new(v, e)
	}
}

// --------------------------------------------------------------------------------------
// the indicators

macro_rules! ind {
	($name:ident { $($f:ident : $t:ty),* $(,)? } next($s:ident, $c:ident, $got:ident) $body:block) => {
		struct $name { $($f: $t),* }
		impl IndRef for $name {
			#[allow(unused_variables)]
			fn next(&mut self, $c: &C5, $got: &[f64]) -> R {
				let $s = self;
				$body
			}
		}
	};
}

fn v(a: Ap) -> EV {
	EV::V(a)
}
fn vo(a: Option<Ap>) -> EV {
	a.map_or(EV::Skip, EV::V)
}

ind!(AroonRef { hh: Hist<f64>, ll: Hist<f64>, p: usize } next(s, c, got) {
	s.hh.push(c.h);
	s.ll.push(c.l);
	let w: Vec<f64> = s.hh.iter().copied().collect();
	let age_h = crate::refm::sel::newest_argmax_age(&w);
	let w: Vec<f64> = s.ll.iter().copied().collect();
	let age_l = crate::refm::sel::newest_argmin_age(&w);
	let f = |age: usize| rounded((s.p - age) as f64 / s.p as f64);
	Ok(vec![v(f(age_h)), v(f(age_l))])
});

ind!(AdxRef { win: Hist<C5>, pc: f64, atr: Box<dyn RefAvg>, pdi: Box<dyn RefAvg>, mdi: Box<dyn RefAvg>, ma2: Box<dyn RefAvg> } next(s, c, got) {
	let prev = s.win.push(*c);
	let tr = rounded(c.h.max(s.pc) - c.l.min(s.pc));
	let atr = s.atr.next(tr);
	// zero branch: the averaged true range is not positive
	// the three averages of method1 advance on every candle (they are averages over the same bars); only the
	// division depends on the zero test of the averaged true range
	s.pc = c.c;
	let (du, dd) = (c.h - prev.h, prev.l - c.l);
	let pdm = if du > dd && du > 0.0 { du } else { 0.0 };
	let mdm = if dd > du && dd > 0.0 { dd } else { 0.0 };
	// averaged movements are clamped at zero (they are averages of non-negative values)
	let clamp = |a: Ap| if a.v < -a.e { ex(0.0) } else { Ap::new(a.v.max(0.0), a.e) };
	let (pa, ma) = (clamp(s.pdi.next(rounded(pdm))), clamp(s.mdi.next(rounded(mdm))));
	let (p, m): (Option<Ap>, Option<Ap>) = match atr.gt(ex(0.0)) {
		// zero branch: the averaged true range is not positive
		Tri::F => (Some(ex(0.0)), Some(ex(0.0))),
		Tri::T => (pa.div(atr), ma.div(atr)),
		// undecidable from the reference: the directional values of this step are exempt
		Tri::A => (None, None),
	};
	// the state of the second average follows the returned directional values when they are exempt
	let pp = p.unwrap_or(Ap::new(got[1], 0.0));
	let mm = m.unwrap_or(Ap::new(got[2], 0.0));
	let sum = pp.add(mm);
	let inp = match sum.is_zero() {
		Tri::T => ex(0.0),
		Tri::F => pp.sub(mm).abs().div(sum).unwrap_or(Ap::new(0.5, 0.5)),
		Tri::A => Ap::new(0.5, 0.5),
	};
	let adx = s.ma2.next(inp);
	Ok(vec![if adx.e > 0.25 { EV::Skip } else { v(adx) }, vo(p), vo(m)])
});

ind!(AoRef { cj: Value, ma1: Box<dyn RefAvg>, ma2: Box<dyn RefAvg> } next(s, c, got) {
	let x = ex(src(c, &s.cj, "source"));
	Ok(vec![v(s.ma2.next(x).sub(s.ma1.next(x)))])
});

ind!(BollingerRef { cj: Value, ma: WinAvg, sd: StDevRef } next(s, c, got) {
	let x = ex(src(c, &s.cj, "source"));
	let mid = s.ma.next(x);
	let sd = s.sd.next(x);
	let k = fz(&s.cj, "sigma");
	Ok(vec![v(mid.add(sd.scale(k))), v(mid), v(mid.sub(sd.scale(k)))])
});

ind!(CmfRef { n: usize, hist: Hist<C5>, t: usize, mcv: Mag, mv: Mag } next(s, c, got) {
	s.hist.push(*c);
	s.t += 1;
	let (mut a, mut ea, mut b) = (0.0, 0.0, 0.0);
	for k in s.hist.iter() {
		let (clv, e) = clv_ref(k);
		a += clv * k.v;
		ea += e * k.v;
		b += k.v;
		s.mcv.add(clv * k.v);
		s.mv.add(k.v);
	}
	if b == 0.0 {
		return Ok(vec![EV::Skip]);
	}
	let num = Ap::new(a, ea + allow(s.n, s.t, s.mcv.0, s.n as f64));
	let den = Ap::new(b, allow(s.n, s.t, s.mv.0, s.n as f64));
	Ok(vec![vo(num.div(den))])
});

ind!(ChaikinOscRef { w: usize, hist: Hist<(f64, f64)>, cum: Ap, abs_sum: f64, t: usize, mag: Mag, ma1: Box<dyn RefAvg>, ma2: Box<dyn RefAvg> } next(s, c, got) {
	let (clv, e) = clv_ref(c);
	let x = (clv * c.v, e * c.v);
	s.t += 1;
	let adi = if s.w == 0 {
		s.abs_sum += x.0.abs();
		s.cum = Ap::new(s.cum.v + x.0, s.cum.e + x.1);
		s.cum.widen(K * eps() * (1 + s.t) as f64 * s.abs_sum)
	} else {
		s.hist.push(x);
		let m = s.mag.add(x.0);
		let (a, ea) = s.hist.iter().fold((0.0, 0.0), |acc, y| (acc.0 + y.0, acc.1 + y.1));
		Ap::new(a, ea + allow(s.w, s.t, m, s.w as f64))
	};
	Ok(vec![v(s.ma1.next(adi).sub(s.ma2.next(adi)))])
});

ind!(CksRef { cj: Value, tr: TrRef, atr: Box<dyn RefAvg>, hh: Hist<f64>, ll: Hist<f64>, ss: SelAp, sl: SelAp } next(s, c, got) {
	let x = fz(&s.cj, "x");
	let atr = s.atr.next(s.tr.next(c));
	s.hh.push(c.h);
	s.ll.push(c.l);
	let phs = ex(hi(&s.hh)).sub(atr.scale(x));
	let pls = ex(lo(&s.ll)).add(atr.scale(x));
	let ss = s.ss.next(phs);
	let sl = s.sl.next(pls);
	Ok(vec![v(sl), v(ex(src(c, &s.cj, "source"))), v(ss)])
});

ind!(CmoRef { cj: Value, n: usize, prev: f64, ch: Hist<f64>, t: usize, mag: Mag } next(s, c, got) {
	let x = src(c, &s.cj, "source");
	let d = x - s.prev;
	s.prev = x;
	s.ch.push(d);
	let m = s.mag.add(d);
	s.t += 1;
	if s.ch.iter().all(|y| *y == 0.0) {
		return Ok(vec![v(ex(0.0))]);
	}
	let (mut p, mut q) = (0.0, 0.0);
	for y in s.ch.iter() {
		if *y > 0.0 { p += y } else { q -= y }
	}
	let a = allow(s.n, s.t, m, s.n as f64) + 2.0 * eps() * m * s.n as f64;
	Ok(vec![vo(Ap::new(p - q, a).div(Ap::new(p + q, a)))])
});

ind!(CciIndRef { cj: Value, cci: CciRef } next(s, c, got) {
	Ok(vec![vo(s.cci.next(src(c, &s.cj, "source")).map(|a| a.scale(1.0 / 1.5)))])
});

ind!(CoppockRef { cj: Value, r1: RocRef, r2: RocRef, ma1: Box<dyn RefAvg>, ma2: Box<dyn RefAvg> } next(s, c, got) {
	let x = src(c, &s.cj, "source");
	let v1 = s.ma1.next(s.r1.next(x).add(s.r2.next(x)));
	let v2 = s.ma2.next(v1);
	Ok(vec![v(v1), v(v2)])
});

ind!(DpoRef { cj: Value, ma: Box<dyn RefAvg>, d: Delay<f64> } next(s, c, got) {
	let x = src(c, &s.cj, "source");
	let m = s.ma.next(ex(x));
	Ok(vec![v(ex(s.d.next(x)).sub(m))])
});

ind!(DonchianRef { hh: Hist<f64>, ll: Hist<f64> } next(s, c, got) {
	s.hh.push(c.h);
	s.ll.push(c.l);
	let (h, l) = (hi(&s.hh), lo(&s.ll));
	Ok(vec![v(ex(l)), v(rounded((h + l) * 0.5)), v(ex(h))])
});

ind!(EomRef { ma: Box<dyn RefAvg>, d: Delay<C5> } next(s, c, got) {
	let p = s.d.next(*c);
	let dd = ((c.h - p.h) + (c.l - p.l)) * 0.5;
	let x = if c.v == 0.0 { ex(0.0) } else { Ap::new(dd * (c.h - c.l) / c.v, 16.0 * eps() * ((c.h.abs() + p.h.abs()) * (c.h - c.l).abs() / c.v)) };
	Ok(vec![v(s.ma.next(x))])
});

ind!(EfiRef { cj: Value, ma: Box<dyn RefAvg>, d: Delay<C5>, vs: SumRef } next(s, c, got) {
	let left = s.d.next(*c);
	let vol = s.vs.next(c.v);
	let dx = rounded(src(c, &s.cj, "source") - src(&left, &s.cj, "source"));
	Ok(vec![v(s.ma.next(dx.mul(vol)))])
});

ind!(EnvelopesRef { cj: Value, ma: Box<dyn RefAvg> } next(s, c, got) {
	let m = s.ma.next(ex(src(c, &s.cj, "source")));
	let k = fz(&s.cj, "k");
	Ok(vec![v(m.scale(gen::vt(1.0 + k))), v(m.scale(gen::vt(1.0 - k))), v(ex(src(c, &s.cj, "source2")))])
});

ind!(FisherRef { cj: Value, h: Hist<f64>, cum: Ap, sig: Box<dyn RefAvg> } next(s, c, got) {
	let x = src(c, &s.cj, "source");
	s.h.push(x);
	let (hh, ll) = (hi(&s.h), lo(&s.h));
	let ft = if hh.to_bits() == ll.to_bits() {
		ex(0.0)
	} else {
		let r = ((x - ll) / (hh - ll)) * 2.0 - 1.0;
		let xr = r.clamp(-0.999, 0.999);
		let ex_ = 8.0 * eps() * (1.0 + r.abs());
		Ap::new(xr.atanh(), ex_ / (1.0 - xr * xr) + 8.0 * eps() * xr.atanh().abs())
	};
	s.cum = s.cum.scale(0.5).add(ft);
	let sig = s.sig.next(s.cum);
	Ok(vec![v(s.cum), v(sig)])
});

ind!(HullRef { cj: Value, ma: Box<dyn RefAvg> } next(s, c, got) {
	Ok(vec![v(s.ma.next(ex(src(c, &s.cj, "source"))))])
});

ind!(IchimokuRef { h1: Hist<f64>, h2: Hist<f64>, h3: Hist<f64>, l1: Hist<f64>, l2: Hist<f64>, l3: Hist<f64>, da: Delay<f64>, db: Delay<f64> } next(s, c, got) {
	for h in [&mut s.h1, &mut s.h2, &mut s.h3] { h.push(c.h); }
	for l in [&mut s.l1, &mut s.l2, &mut s.l3] { l.push(c.l); }
	let tenkan = (hi(&s.h1) + lo(&s.l1)) * 0.5;
	let kijun = (hi(&s.h2) + lo(&s.l2)) * 0.5;
	let a = s.da.next((tenkan + kijun) * 0.5);
	let b = s.db.next((hi(&s.h3) + lo(&s.l3)) * 0.5);
	Ok(vec![v(rounded(tenkan)), v(rounded(kijun)), v(rounded(a)), v(rounded(b))])
});

ind!(KaufmanRef { cj: Value, d: Delay<f64>, prev: f64, dx: Hist<f64>, val: Ap, t: usize, mag: Mag } next(s, c, got) {
	let x = src(c, &s.cj, "source");
	let n = s.dx.buf.len();
	let direction = rounded((x - s.d.next(x)).abs());
	s.dx.push((x - s.prev).abs());
	s.prev = x;
	let m = s.mag.add(x);
	s.t += 1;
	let fast = 2.0 / (uz(&s.cj, "period2") as f64 + 1.0);
	let slow = 2.0 / (uz(&s.cj, "period3") as f64 + 1.0);
	let vol: f64 = s.dx.iter().sum();
	let er = if s.dx.iter().all(|y| *y == 0.0) {
		Some(ex(0.0))
	} else {
		direction.div(Ap::new(vol, allow(n, s.t, 2.0 * m, n as f64)))
	};
	match er {
		Some(er) => {
			let mut sm = er.scale(fast - slow).add(ex(slow));
			if s.cj["square_smooth"].as_bool().unwrap_or(false) {
				sm = sm.mul(sm);
			}
			// v += sm * (x - v)
			let diff = ex(x).sub(s.val);
			s.val = s.val.add(sm.mul(diff)).widen(4.0 * eps() * m);
			Ok(vec![v(s.val)])
		}
		None => {
			// efficiency ratio undecidable: the new value must still lie between the old one and the price
			let (a, b) = (s.val.v.min(x) - s.val.e - 8.0 * eps() * m, s.val.v.max(x) + s.val.e + 8.0 * eps() * m);
			if got[0] >= a && got[0] <= b {
				s.val = Ap::new(got[0], 4.0 * eps() * m);
				Ok(vec![EV::Skip])
			} else {
				Ok(vec![v(Ap::new((a + b) * 0.5, (b - a) * 0.5))])
			}
		}
	}
});

ind!(KeltnerRef { cj: Value, ma: Box<dyn RefAvg>, tr: TrRef, atr: WinAvg } next(s, c, got) {
	let x = ex(src(c, &s.cj, "source"));
	let m = s.ma.next(x);
	let atr = s.atr.next(s.tr.next(c));
	let k = fz(&s.cj, "sigma");
	Ok(vec![v(x), v(m.add(atr.scale(k))), v(m.sub(atr.scale(k)))])
});

ind!(KlingerRef { last_tp: f64, ma1: Box<dyn RefAvg>, ma2: Box<dyn RefAvg>, sig: Box<dyn RefAvg> } next(s, c, got) {
	let tp = c.candle().tp() as f64;
	let d = tp - s.last_tp;
	s.last_tp = tp;
	let vf = ex(((d > 0.0) as i8 - (d < 0.0) as i8) as f64 * c.v);
	let ko = s.ma1.next(vf).sub(s.ma2.next(vf));
	let sg = s.sig.next(ko);
	Ok(vec![v(ko), v(sg)])
});

ind!(KstRef { r: Vec<RocRef>, ma: Vec<Box<dyn RefAvg>>, sig: Box<dyn RefAvg> } next(s, c, got) {
	let mut kst = ex(0.0);
	for i in 0..4 {
		let rc = s.ma[i].next(s.r[i].next(c.c));
		kst = kst.add(rc.scale((i + 1) as f64));
	}
	let sl = s.sig.next(kst);
	Ok(vec![v(kst), v(sl)])
});

ind!(MacdRef { cj: Value, ma1: Box<dyn RefAvg>, ma2: Box<dyn RefAvg>, sig: Box<dyn RefAvg> } next(s, c, got) {
	let x = ex(src(c, &s.cj, "source"));
	let macd = s.ma1.next(x).sub(s.ma2.next(x));
	let sg = s.sig.next(macd);
	Ok(vec![v(macd), v(sg)])
});

ind!(MomIdxRef { cj: Value, d1: Delay<f64>, d2: Delay<f64> } next(s, c, got) {
	let x = src(c, &s.cj, "source");
	Ok(vec![v(rounded(x - s.d1.next(x))), v(rounded(x - s.d2.next(x)))])
});

ind!(MfiRef { cj: Value, n: usize, prev_tp: f64, flows: Hist<(f64, f64)>, t: usize, mag: Mag } next(s, c, got) {
	let tp = c.candle().tp() as f64;
	let f = ((tp > s.prev_tp) as i8 as f64 * c.v, (tp < s.prev_tp) as i8 as f64 * c.v);
	s.prev_tp = tp;
	s.flows.push(f);
	let m = s.mag.add(c.v);
	s.t += 1;
	let z = fz(&s.cj, "zone");
	let (p, q) = s.flows.iter().fold((0.0, 0.0), |a, y| (a.0 + y.0, a.1 + y.1));
	let a = allow(s.n, s.t, m, s.n as f64);
	let val = if s.flows.iter().all(|y| y.0 == 0.0 && y.1 == 0.0) {
		EV::V(rounded(0.5))
	} else if q == 0.0 {
		// no negative flow in the window: the documented convention (ratio 1) competes with the
		// residue of the running sum; undecidable
		EV::Skip
	} else {
		match Ap::new(p, a).div(Ap::new(q, a)) {
			Some(mfr) => vo(ex(1.0).div(ex(1.0).add(mfr)).map(|r| ex(1.0).sub(r))),
			None => EV::Skip,
		}
	};
	Ok(vec![v(rounded(gen::vt(1.0 - z))), val, v(ex(z))])
});

ind!(SarRef { cj: Value, trend: i8, inc: u32, low: f64, high: f64, sar: Ap, prev: C5 } next(s, c, got) {
	let step = fz(&s.cj, "af_step");
	let max = fz(&s.cj, "af_max");
	if s.trend > 0 {
		if s.high < c.h {
			s.high = c.h;
			s.inc += 1;
		}
		match ex(c.l).gt(s.sar) {
			Tri::A => return Err(Cut("SAR flip test within rounding")),
			// low < sar  <=>  !(low >= sar)
			Tri::F if c.l != s.sar.v || s.sar.e > 0.0 => {
				if !(c.l < s.sar.v) {
					return Err(Cut("SAR flip test within rounding"));
				}
				s.trend = -1;
				s.low = c.l;
				s.inc = 1;
				s.sar = ex(s.high);
			}
			_ => {}
		}
	} else {
		if s.low > c.l {
			s.low = c.l;
			s.inc += 1;
		}
		match ex(c.h).gt(s.sar) {
			Tri::A => return Err(Cut("SAR flip test within rounding")),
			Tri::T => {
				s.trend = 1;
				s.high = c.h;
				s.inc = 1;
				s.sar = ex(s.low);
			}
			_ => {}
		}
	}
	let out = vec![v(s.sar), v(ex(s.trend as f64))];
	let af = max.min(gen::vt(step * s.inc as f64));
	if s.trend > 0 {
		let nx = s.sar.add(ex(s.high).sub(s.sar).scale(af));
		s.sar = nx.min(ex(c.l)).min(ex(s.prev.l));
	} else {
		let nx = s.sar.add(ex(s.low).sub(s.sar).scale(af));
		s.sar = nx.max(ex(c.h)).max(ex(s.prev.h));
	}
	s.prev = *c;
	Ok(out)
});

ind!(NoValues {} next(s, c, got) { Ok(vec![]) });

ind!(PriceChannelRef { cj: Value, hh: Hist<f64>, ll: Hist<f64> } next(s, c, got) {
	s.hh.push(c.h);
	s.ll.push(c.l);
	let (h, l) = (hi(&s.hh), lo(&s.ll));
	let mid = (h + l) * 0.5;
	let d = h - mid;
	let k = fz(&s.cj, "sigma");
	Ok(vec![v(Ap::new(d * k + mid, 8.0 * eps() * h.abs())), v(Ap::new(mid - d * k, 8.0 * eps() * h.abs()))])
});

ind!(RsiRef { cj: Value, prev: f64, pos: Box<dyn RefAvg>, neg: Box<dyn RefAvg> } next(s, c, got) {
	let x = src(c, &s.cj, "source");
	let d = x - s.prev;
	s.prev = x;
	let p = s.pos.next(rounded(d.max(0.0)));
	let q = s.neg.next(rounded(d.min(0.0))).neg();
	// both averages are clamped at zero by the implementation
	let pc = Ap::new(p.v.max(0.0), p.e);
	let qc = Ap::new(q.v.max(0.0), q.e);
	let val = match (pc.is_zero(), qc.is_zero()) {
		(Tri::T, Tri::T) => v(ex(0.5)),
		(Tri::A, _) | (_, Tri::A) => EV::Skip,
		_ => vo(pc.div(pc.add(qc))),
	};
	Ok(vec![val])
});

ind!(RviRef { pc: f64, s1: WinAvg, m1: WinAvg, s2: WinAvg, m2: WinAvg, sig: Box<dyn RefAvg> } next(s, c, got) {
	let co = rounded(c.c - s.pc);
	s.pc = c.c;
	let a = s.m1.next(s.s1.next(co));
	let b = s.m2.next(s.s2.next(rounded(c.h - c.l)));
	let rvi = match b.is_zero() {
		Tri::T => Some(ex(0.0)),
		Tri::F => a.div(b),
		Tri::A => None,
	};
	// the signal line is an average of the returned main value when that is exempt
	let inp = rvi.unwrap_or(Ap::new(got[0], 0.0));
	let sg = s.sig.next(inp);
	Ok(vec![vo(rvi), if rvi.is_some() || got[0].is_finite() { v(sg) } else { EV::Skip }])
});

ind!(SmiRef { cj: Value, tsi: TsiRef, sig: Box<dyn RefAvg> } next(s, c, got) {
	let t = s.tsi.next(src(c, &s.cj, "source"));
	let inp = t.unwrap_or(Ap::new(got[0], 0.0));
	let sg = s.sig.next(inp);
	Ok(vec![vo(t), v(sg), vo(t.map(|t| t.sub(sg)))])
});

ind!(StochRef { hh: Hist<f64>, ll: Hist<f64>, ma: Box<dyn RefAvg>, sig: Box<dyn RefAvg> } next(s, c, got) {
	s.hh.push(c.h);
	s.ll.push(c.l);
	let (h, l) = (hi(&s.hh), lo(&s.ll));
	let k = if h == l { ex(0.5) } else { Ap::new((c.c - l) / (h - l), 8.0 * eps()) };
	let f1 = s.ma.next(k);
	let f2 = s.sig.next(f1);
	Ok(vec![v(f1), v(f2)])
});

ind!(TrixRef { cj: Value, tma: Box<dyn RefAvg>, prev: Ap, sig: Box<dyn RefAvg> } next(s, c, got) {
	let t = s.tma.next(ex(src(c, &s.cj, "source")));
	let val = t.sub(s.prev);
	s.prev = t;
	let sg = s.sig.next(val);
	Ok(vec![v(val), v(sg)])
});

ind!(TrendStrRef { cj: Value, n: usize, h: Hist<f64>, t: usize, mag: Mag } next(s, c, got) {
	let x = src(c, &s.cj, "source");
	s.h.push(x);
	let m = s.mag.add(x);
	s.t += 1;
	let w: Vec<f64> = s.h.iter().copied().collect();
	let n = s.n as f64;
	let sx = (s.n * (s.n + 1) / 2) as f64;
	let sx2 = sx * (2.0 * n + 1.0) / 3.0;
	let k = sx2 - (n + 1.0) * sx * 0.5;
	let sy: f64 = w.iter().sum();
	let sy2: f64 = w.iter().map(|y| y * y).sum();
	let sma = sy / n;
	let p = Ap::new((win::wma(&w) - sma) * sx, allow(s.n, s.t, m, 2.0) * sx);
	let q = Ap::new(k * (sy2 - sma * sy), k * allow(s.n, s.t, m * m, n));
	let val = match q.gt(ex(0.0)) {
		Tri::T => p.div(q.sqrt()),
		Tri::F => Some(ex(0.0)),
		Tri::A => None,
	};
	Ok(vec![vo(val)])
});

ind!(TrueStrRef { cj: Value, tsi: TsiRef, sig: EmaRef } next(s, c, got) {
	let t = s.tsi.next(src(c, &s.cj, "source"));
	let inp = t.unwrap_or(Ap::new(got[0], 0.0));
	let sg = s.sig.next(inp);
	Ok(vec![vo(t), v(sg)])
});

ind!(WoodiesRef { cj: Value, a: CciRef, b: CciRef } next(s, c, got) {
	let x = src(c, &s.cj, "source");
	Ok(vec![vo(s.a.next(x).map(|y| y.scale(1.0 / 1.5))), vo(s.b.next(x).map(|y| y.scale(1.0 / 1.5)))])
});

ind!(ExampleRef {} next(s, c, got) { Ok(vec![v(ex(c.c))]) });

pub fn reference(name: &str, cj: &Value, f: &C5) -> Box<dyn IndRef> {
	let s0 = |key: &str| src(f, cj, key);
	let cjv = cj.clone();
	match name {
		"Aroon" => {
			let p = uz(cj, "period");
			Box::new(AroonRef { hh: Hist::new(p, f.h), ll: Hist::new(p, f.l), p })
		}
		"AverageDirectionalIndex" => Box::new(AdxRef { win: Hist::new(uz(cj, "period1"), *f), pc: f.c, atr: ma_ref(&cj["method1"], rounded(f.h - f.l)), pdi: ma_ref(&cj["method1"], ex(0.0)), mdi: ma_ref(&cj["method1"], ex(0.0)), ma2: ma_ref(&cj["method2"], ex(0.0)) }),
		"AwesomeOscillator" => Box::new(AoRef { ma1: ma_ref(&cj["ma1"], ex(s0("source"))), ma2: ma_ref(&cj["ma2"], ex(s0("source"))), cj: cjv }),
		"BollingerBands" => {
			let n = uz(cj, "avg_size");
			Box::new(BollingerRef { ma: WinAvg::sma(n, ex(s0("source"))), sd: StDevRef::new(n, s0("source")), cj: cjv })
		}
		"ChaikinMoneyFlow" => {
			let n = uz(cj, "size");
			Box::new(CmfRef { n, hist: Hist::new(n, *f), t: 0, mcv: Mag::new(0.0), mv: Mag::new(0.0) })
		}
		"ChaikinOscillator" => {
			let w = uz(cj, "window");
			let (clv, e) = clv_ref(f);
			let a0 = if w > 0 { Ap::new(clv * f.v * w as f64, e * f.v * w as f64 + 4.0 * eps() * (clv * f.v * w as f64).abs()) } else { ex(0.0) };
			Box::new(ChaikinOscRef { w, hist: Hist::new(w.max(1), (clv * f.v, e * f.v)), cum: ex(0.0), abs_sum: 0.0, t: 0, mag: Mag::new(clv * f.v), ma1: ma_ref(&cj["ma1"], a0), ma2: ma_ref(&cj["ma2"], a0) })
		}
		"ChandeKrollStop" => {
			let p = ma_len(&cj["ma"]);
			let q = uz(cj, "q");
			let x = fz(cj, "x");
			let tr = f.h - f.l;
			Box::new(CksRef { tr: TrRef { pc: f.c }, atr: ma_ref(&cj["ma"], rounded(tr)), hh: Hist::new(p, f.h), ll: Hist::new(p, f.l), ss: SelAp::new(q, rounded(f.h - x * tr), true), sl: SelAp::new(q, rounded(f.l + x * tr), false), cj: cjv })
		}
		"ChandeMomentumOscillator" => {
			let n = uz(cj, "period");
			Box::new(CmoRef { n, prev: s0("source"), ch: Hist::new(n, 0.0), t: 0, mag: Mag::new(0.0), cj: cjv })
		}
		"CommodityChannelIndex" => Box::new(CciIndRef { cci: CciRef::new(uz(cj, "period"), s0("source")), cj: cjv }),
		"CoppockCurve" => Box::new(CoppockRef { r1: RocRef::new(uz(cj, "period2"), s0("source")), r2: RocRef::new(uz(cj, "period3"), s0("source")), ma1: ma_ref(&cj["ma1"], ex(0.0)), ma2: ma_ref(&cj["s3_ma"], ex(0.0)), cj: cjv }),
		"DetrendedPriceOscillator" => Box::new(DpoRef { ma: ma_ref(&cj["ma"], ex(s0("source"))), d: Delay::new(ma_len(&cj["ma"]) / 2 + 1, s0("source")), cj: cjv }),
		"DonchianChannel" => Box::new(DonchianRef { hh: Hist::new(uz(cj, "period"), f.h), ll: Hist::new(uz(cj, "period"), f.l) }),
		"EaseOfMovement" => Box::new(EomRef { ma: ma_ref(&cj["ma"], ex(0.0)), d: Delay::new(uz(cj, "period2"), *f) }),
		"EldersForceIndex" => {
			let k = uz(cj, "period2");
			Box::new(EfiRef { ma: ma_ref(&cj["ma"], ex(0.0)), d: Delay::new(k, *f), vs: SumRef::new(k, f.v), cj: cjv })
		}
		"Envelopes" => Box::new(EnvelopesRef { ma: ma_ref(&cj["ma"], ex(s0("source"))), cj: cjv }),
		"FisherTransform" => Box::new(FisherRef { h: Hist::new(uz(cj, "period1"), s0("source")), cum: ex(0.0), sig: ma_ref(&cj["signal"], ex(0.0)), cj: cjv }),
		"HullMovingAverage" => Box::new(HullRef { ma: refi::ma_ref_kind("hma", uz(cj, "period"), ex(s0("source"))), cj: cjv }),
		"IchimokuCloud" => {
			let (a, b, c3, m) = (uz(cj, "l1"), uz(cj, "l2"), uz(cj, "l3"), uz(cj, "m"));
			let hl2 = f.candle().hl2() as f64;
			Box::new(IchimokuRef { h1: Hist::new(a, f.h), h2: Hist::new(b, f.h), h3: Hist::new(c3, f.h), l1: Hist::new(a, f.l), l2: Hist::new(b, f.l), l3: Hist::new(c3, f.l), da: Delay::new(m, hl2), db: Delay::new(m, hl2) })
		}
		"Kaufman" => {
			let p1 = uz(cj, "period1");
			Box::new(KaufmanRef { d: Delay::new(p1, s0("source")), prev: s0("source"), dx: Hist::new(p1, 0.0), val: ex(s0("source")), t: 0, mag: Mag::new(s0("source")), cj: cjv })
		}
		"KeltnerChannel" => Box::new(KeltnerRef { ma: ma_ref(&cj["ma"], ex(s0("source"))), tr: TrRef { pc: f.c }, atr: WinAvg::sma(ma_len(&cj["ma"]), rounded(f.h - f.l)), cj: cjv }),
		"KlingerVolumeOscillator" => Box::new(KlingerRef { last_tp: f.candle().tp() as f64, ma1: ma_ref(&cj["ma1"], ex(0.0)), ma2: ma_ref(&cj["ma2"], ex(0.0)), sig: ma_ref(&cj["signal"], ex(0.0)) }),
		"KnowSureThing" => Box::new(KstRef { r: (1..=4).map(|i| RocRef::new(uz(cj, &format!("period{i}")), f.c)).collect(), ma: (1..=4).map(|i| ma_ref(&cj[format!("ma{i}").as_str()], ex(0.0))).collect(), sig: ma_ref(&cj["signal"], ex(0.0)) }),
		"MACD" => Box::new(MacdRef { ma1: ma_ref(&cj["ma1"], ex(s0("source"))), ma2: ma_ref(&cj["ma2"], ex(s0("source"))), sig: ma_ref(&cj["signal"], ex(0.0)), cj: cjv }),
		"MomentumIndex" => Box::new(MomIdxRef { d1: Delay::new(uz(cj, "period1"), s0("source")), d2: Delay::new(uz(cj, "period2"), s0("source")), cj: cjv }),
		"MoneyFlowIndex" => {
			let n = uz(cj, "period");
			Box::new(MfiRef { n, prev_tp: f.candle().tp() as f64, flows: Hist::new(n, (0.0, 0.0)), t: 0, mag: Mag::new(f.v), cj: cjv })
		}
		"ParabolicSAR" => Box::new(SarRef { trend: 1, inc: 1, low: f.l, high: f.h, sar: ex(f.l), prev: *f, cj: cjv }),
		"PivotReversalStrategy" => Box::new(NoValues {}),
		"PriceChannelStrategy" => Box::new(PriceChannelRef { hh: Hist::new(uz(cj, "period"), f.h), ll: Hist::new(uz(cj, "period"), f.l), cj: cjv }),
		"RelativeStrengthIndex" => Box::new(RsiRef { prev: s0("source"), pos: ma_ref(&cj["ma"], ex(0.0)), neg: ma_ref(&cj["ma"], ex(0.0)), cj: cjv }),
		"RelativeVigorIndex" => {
			let (p1, p2) = (uz(cj, "period1"), uz(cj, "period2"));
			let hl = rounded(f.h - f.l);
			Box::new(RviRef { pc: f.c, s1: WinAvg::swma(p2, ex(0.0)), m1: WinAvg::sma(p1, ex(0.0)), s2: WinAvg::swma(p2, hl), m2: WinAvg::sma(p1, hl), sig: ma_ref(&cj["signal"], ex(0.0)) })
		}
		"SMIErgodicIndicator" => Box::new(SmiRef { tsi: TsiRef::new(uz(cj, "period2"), uz(cj, "period1"), s0("source")), sig: ma_ref(&cj["signal"], ex(0.0)), cj: cjv }),
		"StochasticOscillator" => {
			let n = uz(cj, "period");
			let k0 = if f.h == f.l { ex(0.5) } else { Ap::new((f.c - f.l) / (f.h - f.l), 8.0 * eps()) };
			Box::new(StochRef { hh: Hist::new(n, f.h), ll: Hist::new(n, f.l), ma: ma_ref(&cj["ma"], k0), sig: ma_ref(&cj["signal"], k0) })
		}
		"Trix" => Box::new(TrixRef { tma: refi::ma_ref_kind("tma", uz(cj, "period1"), ex(s0("source"))), prev: ex(s0("source")), sig: ma_ref(&cj["signal"], ex(0.0)), cj: cjv }),
		"TrendStrengthIndex" => {
			let n = uz(cj, "period");
			Box::new(TrendStrRef { n, h: Hist::new(n, s0("source")), t: 0, mag: Mag::new(s0("source")), cj: cjv })
		}
		"TrueStrengthIndex" => {
			let p3 = uz(cj, "period3");
			Box::new(TrueStrRef { tsi: TsiRef::new(uz(cj, "period2"), uz(cj, "period1"), s0("source")), sig: EmaRef::new(2.0 / (p3 as f64 + 1.0), p3, ex(0.0)), cj: cjv })
		}
		"WoodiesCCI" => Box::new(WoodiesRef { a: CciRef::new(uz(cj, "period1"), s0("source")), b: CciRef::new(uz(cj, "period2"), s0("source")), cj: cjv }),
		_ => Box::new(ExampleRef {}),
	}
}

#[derive(Serialize, Deserialize, Clone, Debug)]
pub struct VCase {
	pub cfg: CfgCase,
	pub s: CandleStream,
}

pub fn run(c: &VCase, st: &mut Stats) -> CaseResult {
	let cfg = cfggen::instantiate(&c.cfg).map_err(|e| Failure::new("C05:generator", format!("{}: {e}", c.cfg.name)))?;
	let name = c.cfg.name.as_str();
	let cj = cfg.to_json();
	let cs = &c.s.cs;
	let mut inst = cfg.init(&cs[0].candle()).map_err(|e| Failure::new(format!("C05:{name}:init"), format!("{cj}: {e:?}")))?;
	let mut r = reference(name, &cj, &cs[0]);
	let p = cfggen::max_period(&cj) as usize;
	let mut compared = 0u64;
	let mut cut_at = None;
	// (the initial candle is the first candle of the stream and is fed again, as the API prescribes; what `init`
	// takes from a candle that is NOT fed again is outside the documented usage and outside this property)
	for (t, k) in cs.iter().enumerate() {
		let res = inst.next(&k.candle());
		let got: Vec<f64> = res.values().iter().map(|x| *x as f64).collect();
		let exp = match r.next(k, &got) {
			Ok(e) => e,
			Err(Cut(why)) => {
				st.count("cut_cases", 1);
				st.class(&format!("cut:{why}"));
				cut_at = Some(t);
				break;
			}
		};
		if exp.len() != got.len() {
			return Err(Failure::new(format!("C05:{name}:shape"), format!("{name}: {} values returned, {} documented", got.len(), exp.len())));
		}
		for (i, (e, g)) in exp.iter().zip(got.iter()).enumerate() {
			match e {
				EV::Skip => st.count("exempt_steps", 1),
				EV::V(a) => {
					if a.e > 0.0 {
						st.ratio((g - a.v).abs() / a.e);
					}
					compared += 1;
					if !a.contains(*g) {
						return Err(Failure::new(format!("C05:{name}:value:{i}"), format!("{name} {cj} step {t}: value #{i} is {:e}, the documented formula gives {:e} +- {:e}; candle {:?}", g, a.v, a.e, k)));
					}
				}
			}
		}
	}
	st.count("steps", cs.len() as u64);
	st.count("values_compared", compared);
	if cs.len() > p && cut_at.map_or(true, |t| t > p) && compared > 0 {
		st.nontrivial(engine::fnv(format!("{:?}{:?}", c.cfg, &cs[..cs.len().min(8)]).as_bytes()) ^ cs.len() as u64);
	}
	st.sample(name, || serde_json::json!({"indicator": name, "config": cj, "stream_len": cs.len(), "values_compared": compared, "cut_at": cut_at}));
	Ok(())
}

pub fn def(tier: Tier) -> PropertyDef {
	let mut checks: Vec<Box<dyn SubCheck>> = Vec::new();
	let max_len = tier.pick(400usize, 1500);
	for name in cfggen::NAMES {
		let strat = cfggen::config_strategy(name, GenOpts { wide: false, price_sources: true, nonneg_ma: false })
			.prop_flat_map(move |cfg| {
				let p = if cfg.cfg.is_null() { 20 } else { cfggen::max_period(&cfg.cfg).clamp(2, 60) } as u32;
				(Just(cfg), prop_oneof![3 => gen::candle_stream_n(p, max_len), 1 => gen::regime_candle_stream_n(p, max_len)])
			})
			.prop_map(|(cfg, s)| VCase { cfg, s });
		checks.push(pt(&format!("values_{name}"), tier.pick(3000, 60000), strat, run));
		// long one-sided trends with a zig-zag: run, peak and "bars since" counters far from their start
		let strat = (cfggen::config_strategy(name, GenOpts { wide: false, price_sources: true, nonneg_ma: false }), gen::trend_candle_stream(tier.pick(1500, 5000))).prop_map(|(cfg, s)| VCase { cfg, s });
		checks.push(pt(&format!("trend_values_{name}"), tier.pick(40, 1200), strat, run));
		// exactly representable lattice candles: ties between prices, averages and thresholds
		let strat = (cfggen::config_strategy(name, GenOpts { wide: false, price_sources: true, nonneg_ma: false }), gen::lattice_candle_stream(tier.pick(200, 600))).prop_map(|(cfg, s)| VCase { cfg, s });
		checks.push(pt(&format!("lattice_values_{name}"), tier.pick(300, 6000), strat, run));
	}
	checks.extend(crate::fuzz_entry::corpus_checks("C05"));
	PropertyDef {
		id: "C05",
		level: "exploration",
		rule: "All 37 indicators, generated valid configurations with every MA kind and boundary periods, valid candle streams <= 400 (thorough 1500) incl. flat stretches, gaps, zero-volume bars, regime streams, one stream in seven at a tiny price scale (1e-12..1e-6), and long one-sided trend streams with a zig-zag (<= 1500 bars, thorough 5000); at every step every raw value must lie inside the interval [v - e, v + e] of an independent reference indicator (DESIGN §6) composed from naive reference methods (full history, f64) in value+-allowance arithmetic: sums and products propagate errors, quotients below twice their error are exempt (counted), undecidable state-changing branches either follow the returned values for the state only (never for the expectation) or cut the case (counted). Non-trivial = stream longer than the largest period, not cut before that point, at least one value compared; distinct by hash.",
		assumptions: vec!["allowance K = 256 of DESIGN 4.2 for every reference method; averages configured as MA::Vidya use a first-order error model that widens to the hull of input and previous output when the smoothing factor is undecidable".into(), "candle helper functions of yata::core (source, tp, hl2) are trusted here; C18 checks them".into()],
		exhaustive: false,
		checks,
	}
}
