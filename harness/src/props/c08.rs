//! C08 — the construction value acts as an infinite constant prehistory.

use crate::approx::{allow, Mag};
use crate::cfggen::{self, CfgCase, GenOpts};
use crate::dynm::{self, In, MParams, Nature, Out};
use crate::engine::{self, pt, CaseResult, Failure, PropertyDef, Stats, SubCheck, Tier};
use crate::ensure;
use crate::gen::{self, CandleStream, C5};
use crate::mgen::{self, MStream};
use proptest::prelude::*;
use serde::{Deserialize, Serialize};
use yata::core::{Action, Candle, IndicatorResult};

#[derive(Serialize, Deserialize, Clone, Debug)]
pub struct ConstCase {
	pub m: MStream,
	/// number of leading copies of the first element
	pub k: u16,
}

fn in_mag(x: &In) -> f64 {
	match x {
		In::V(v) => v.abs(),
		In::P(a, b) => a.abs().max(b.abs()).max((a * b).abs()),
		In::C(c) => c.h.abs().max(c.v.abs()).max(c.h * c.v),
	}
}

fn span_gain(kind: &str, p: &MParams) -> (usize, f64) {
	let n = match p {
		MParams::Len(n) => *n as usize,
		MParams::Pair(a, b) => (*a + *b) as usize,
		MParams::Weights(w) => w.len(),
		_ => 1,
	};
	let g = match kind {
		"Integral" | "ADI" | "LinearVolatility" | "VWMA" => n.max(1) as f64 * 4.0,
		"Conv" => match p {
			MParams::Weights(w) => 4.0 * crate::refm::win::l1_gain(w),
			_ => 4.0,
		},
		_ => 8.0,
	};
	(n, g)
}

/// |a - b| within tol, NaN agreeing with NaN; StDev-like outputs are compared on squares
fn close_out(kind: &str, a: &Out, b: &Out, tol: f64, m: f64) -> bool {
	if let (Out::R(x), Out::R(y)) = (a, b) {
		// Renko's volume is explicitly exempt (it accumulates over the leading copies): compare the
		// number of blocks and their open/close only
		return x.len() == y.len() && x.iter().zip(y.iter()).all(|(p, q)| (p[0] as f64).to_bits() == (q[0] as f64).to_bits() && (p[1] as f64).to_bits() == (q[1] as f64).to_bits());
	}
	if matches!(kind, "CCI" | "RateOfChange" | "TSI" | "VWMA") {
		// scale-free quotients: their conditioning is not bounded by the input magnitude. The definitional
		// checks C02/C03 (free prehistory value) decide them tightly; here only a gross deviation counts
		return match (a.floats(), b.floats()) {
			(Some(x), Some(y)) => x.iter().zip(y.iter()).all(|(p, q)| (p.is_nan() && q.is_nan()) || p == q || (p - q).abs() <= 1e-6 * (1.0 + p.abs().max(q.abs()))),
			_ => a.same_bits(b),
		};
	}
	match (a.floats(), b.floats()) {
		(Some(x), Some(y)) => x.iter().zip(y.iter()).all(|(p, q)| {
			if p.is_nan() || q.is_nan() {
				return p.is_nan() && q.is_nan();
			}
			if kind == "StDev" {
				// the output is the square root of a quantity that is accurate to eps*M^2
				return (p * p - q * q).abs() <= tol * m.max(1e-300);
			}
			p == q || (p - q).abs() <= tol
		}),
		_ => a.same_bits(b),
	}
}

fn run_method(c: &ConstCase, st: &mut Stats) -> CaseResult {
	let kind = dynm::kind(&c.m.kind).ok_or_else(|| Failure::new("C08:harness", "unknown kind"))?;
	let name = kind.name;
	// explicitly cumulative or counting methods are exempt
	if name == "CollapseTimeframe" || (kind.cumulative_when_zero && matches!(c.m.params, MParams::Len(0))) {
		st.count("exempt_cumulative", 1);
		return Ok(());
	}
	let xs = &c.m.xs;
	let v = xs[0];
	let (n, g) = span_gain(name, &c.m.params);
	let k = 1 + (c.k as usize * (3 * n + 10)) / 65536;
	let exact = kind.nature == Nature::Exact;
	let mk = || (kind.make)(&c.m.params, &v).map_err(|e| Failure::new(format!("C08:{name}:ctor"), format!("{:?}: {e:?}", c.m.params)));
	// (a) constancy
	let mut a = mk()?;
	let mv = in_mag(&v);
	let first = a.next(&v);
	for j in 1..k {
		let o = a.next(&v);
		if exact {
			ensure!(o.same_bits(&first), &format!("C08:{name}:constancy"), "{name} {:?} created from {:?} and fed it again: output #{} is {:?}, the first was {:?}", c.m.params, v, j + 1, o, first);
		} else {
			let tol = allow(n, j, mv, g);
			ensure!(close_out(name, &o, &first, tol, mv), &format!("C08:{name}:constancy"), "{name} {:?} created from {:?} and fed it again: output #{} is {:?}, the first was {:?} (allowance {:e})", c.m.params, v, j + 1, o, first, tol);
		}
	}
	// (b) prefix invariance: v, s1, s2, ..  versus  v^k, s1, s2, ..
	let mut short = mk()?;
	short.next(&v);
	let mut long = a; // already fed k copies
	let mut mag = Mag::new(mv);
	let mut moved = false;
	for (t, x) in xs[1..].iter().enumerate() {
		let mt = mag.add(in_mag(x));
		moved |= *x != v;
		let (os, ol) = (short.next(x), long.next(x));
		if exact {
			ensure!(if name == "Renko" { close_out(name, &os, &ol, 0.0, 0.0) } else { os.same_bits(&ol) }, &format!("C08:{name}:prefix"), "{name} {:?}: after {} leading copies of {:?} the output at continuation step {} is {:?}, without them {:?}", c.m.params, k, v, t, ol, os);
		} else {
			let tol = allow(n, t + k, mt, g);
			ensure!(close_out(name, &os, &ol, tol, mt), &format!("C08:{name}:prefix"), "{name} {:?}: after {} leading copies of {:?} the output at continuation step {} is {:?}, without them {:?} (allowance {:e})", c.m.params, k, v, t, ol, os, tol);
		}
	}
	let special = match v {
		In::V(x) => x != 0.0 && x != 1.0,
		_ => true,
	};
	if special && k >= 2 && moved {
		st.nontrivial(engine::fnv(format!("{:?}{}{:?}", c.m.params, k, &xs[..xs.len().min(10)]).as_bytes()));
	}
	st.count("steps", (xs.len() + k) as u64);
	st.class(if exact { "exact-kind" } else { "arith-kind" });
	st.sample(name, || serde_json::json!({"kind": name, "params": c.m.params, "first": v, "copies": k, "stream_len": xs.len()}));
	Ok(())
}

// ---------------------------------------------------------------------------------------
// indicators

#[derive(Serialize, Deserialize, Clone, Debug)]
pub struct IConst {
	pub cfg: CfgCase,
	pub s: CandleStream,
	pub k: u16,
	/// shape of the first candle: 0 generic (open != close, high > low), 1 flat, 2 zero volume, 3 as generated
	pub first_shape: u8,
}

/// canonical form of a signal under Action's own equality (Buy(0) == Sell(0))
fn sig_bits(a: &Action) -> u32 {
	match a {
		Action::None => 1 << 20,
		Action::Buy(0) | Action::Sell(0) => 2 << 20,
		Action::Buy(k) => 2 << 20 | *k as u32,
		Action::Sell(k) => 3 << 20 | *k as u32,
	}
}

/// indicators without inexact arithmetic state: on constant input their signals must be exactly constant.
/// All the others compare differences of averages (or other rounded quantities) with thresholds.
const EXACT_STATE: [&str; 8] = ["Aroon", "DonchianChannel", "IchimokuCloud", "MomentumIndex", "ParabolicSAR", "PivotReversalStrategy", "PriceChannelStrategy", "Example"];

fn scale_of(name: &str, cs: &[C5], upto: usize) -> f64 {
	let mut m: f64 = 0.0;
	for c in &cs[..=upto.min(cs.len() - 1)] {
		m = m.max(c.h);
		match name {
			"ChaikinOscillator" | "KlingerVolumeOscillator" => m = m.max(c.v),
			"EldersForceIndex" => m = m.max(c.v * c.h),
			"EaseOfMovement" => {
				if c.v > 0.0 {
					m = m.max(c.h * c.h / c.v)
				}
			}
			_ => {}
		}
	}
	m.max(1.0)
}

/// indicators whose values are quotients of averaged (or summed) quantities
const RATIO_VALUED: [&str; 16] = [
	"AverageDirectionalIndex",
	"RelativeVigorIndex",
	"RelativeStrengthIndex",
	"ChandeMomentumOscillator",
	"MoneyFlowIndex",
	"ChaikinMoneyFlow",
	"CommodityChannelIndex",
	"WoodiesCCI",
	"TrueStrengthIndex",
	"SMIErgodicIndicator",
	"StochasticOscillator",
	"FisherTransform",
	"KnowSureThing",
	"CoppockCurve",
	"TrendStrengthIndex",
	"EaseOfMovement",
];

fn values_close(name: &str, a: &IndicatorResult, b: &IndicatorResult, tol: f64) -> Option<usize> {
	let ratio = RATIO_VALUED.contains(&name);
	a.values().iter().zip(b.values().iter()).position(|(p, q)| {
		let (p, q) = (*p as f64, *q as f64);
		if p.is_nan() || q.is_nan() {
			return !(p.is_nan() && q.is_nan());
		}
		// ratios of averages are scale-free and their conditioning is not bounded by the input magnitude:
		// a relative floor keeps gross (seeding-type) deviations visible without raising alarms on them.
		// A quotient n/d with a bounded numerator answers a perturbation of d with |n/d|^2 * delta / |n|:
		// a large value *is* the sign of a small denominator (ADX with an overshooting average of the true
		// range: DI = 181), so for ratio-valued indicators the floor grows with the square of the value.
		let m = p.abs().max(q.abs());
		let floor = if ratio { 1e-6 * (1.0 + m) * m.max(1.0) } else { 1e-6 * (1.0 + m) };
		!(p == q || (p - q).abs() <= tol || (p - q).abs() <= floor)
	})
}

fn run_indicator(c: &IConst, st: &mut Stats) -> CaseResult {
	let cfg = cfggen::instantiate(&c.cfg).map_err(|e| Failure::new("C08:generator", format!("{}: {e}", c.cfg.name)))?;
	let name = c.cfg.name.as_str();
	let cj = cfg.to_json();
	if name == "ChaikinOscillator" && cj["window"].as_u64() == Some(0) {
		st.count("exempt_cumulative", 1);
		return Ok(());
	}
	let mut cs = c.s.cs.clone();
	// first candle shapes
	match c.first_shape % 4 {
		0 => {
			let b = cs[0].c;
			cs[0] = C5 { o: gen::vt(b * 0.99), h: gen::vt(b * 1.02), l: gen::vt(b * 0.97), c: b, v: cs[0].v.max(1.0) };
		}
		1 => {
			let b = cs[0].c;
			cs[0] = C5 { o: b, h: b, l: b, c: b, v: cs[0].v };
		}
		2 => cs[0].v = 0.0,
		_ => {}
	}
	let v = cs[0].candle();
	let p = cfggen::max_period(&cj).max(1) as usize;
	let k = 1 + (c.k as usize * (3 * p + 10)) / 65536;
	let mk = || cfg.init(&v).map_err(|e| Failure::new(format!("C08:{name}:init"), format!("{cj}: {e:?}")));
	let scale0 = scale_of(name, &cs, 0);
	let sar = name == "ParabolicSAR";
	// (a) constancy
	let mut a = mk()?;
	let first = a.next(&v);
	let mut reference = first;
	let mut noise = false;
	let mut deferred: Option<Failure> = None;
	for j in 1..k {
		let o = a.next(&v);
		if sar && j == 1 {
			// the documented trend value goes from 'no trend' to its initial trend on the first candle
			reference = o;
			continue;
		}
		let s = scale0.max(reference.values().iter().fold(0.0f64, |m, x| m.max((*x as f64).abs())));
		let tol = allow(p, j, s, 16.0);
		if let Some(i) = values_close(name, &o, &reference, tol) {
			return Err(Failure::new(format!("C08:{name}:constancy-value:{i}"), format!("{name} {cj} initialised with {:?} and fed it again: value #{i} of result #{} is {:e}, at the start it was {:e} (allowance {:e})", cs[0], j + 1, o.values()[i], reference.values()[i], tol)));
		}
		noise |= o.values().iter().zip(reference.values().iter()).any(|(p, q)| (*p as f64).to_bits() != (*q as f64).to_bits());
		if let Some(i) = o.signals().iter().zip(reference.signals().iter()).position(|(x, y)| sig_bits(x) != sig_bits(y)) {
			// a signal that flips while the values move only inside the rounding allowance is one root cause
			// (averages that do not reproduce a constant bit-exactly); with bit-constant values it is another
			let _ = noise;
			let sig = if EXACT_STATE.contains(&name) { format!("C08:{name}:constancy-signal:{i}") } else { format!("C08:signal-on-rounding-noise:{name}:{i}") };
			let strict = EXACT_STATE.contains(&name);
			let f = Failure::new(sig, format!("{name} {cj} initialised with {:?} and fed it again: signal #{i} of result #{} is {:?}, at the start it was {:?} (values {})", cs[0], j + 1, o.signals()[i], reference.signals()[i], if noise { "moved within the rounding allowance" } else { "are bit-constant" }));
			if strict {
				return Err(f);
			}
			// known class: remember it, but keep checking what lies behind it in this case
			deferred.get_or_insert(f);
			noise = true;
		}
	}
	// (b) prefix invariance
	let mut short = mk()?;
	short.next(&v);
	let mut long = a;
	// states can only be expected to coincide if the leading copies left the values bit-constant
	let mut all_equal = !noise;
	let mut moved = false;
	let mut smax: f64 = 0.0;
	for (t, x) in cs[1..].iter().enumerate() {
		let cd: Candle = x.candle();
		moved |= *x != cs[0];
		let (os, ol) = (short.next(&cd), long.next(&cd));
		for r in [&os, &ol] {
			smax = r.values().iter().fold(smax, |m, y| if y.is_finite() { m.max((*y as f64).abs()) } else { m });
		}
		let tol = allow(p, t + k, scale_of(name, &cs, t + 1).max(smax), 16.0);
		if let Some(i) = values_close(name, &os, &ol, tol) {
			// Vidya's smoothing factor is a ratio of sums of changes: on a series that is constant only up to
			// rounding (a computed series over a flat stretch) it is decided by the noise, so two histories
			// that differ in their rounding residues can converge at different speeds
			let vidya = cj.to_string().contains("vidya");
			// indicators that divide by an AVERAGED range (ADX: averaged true range, RVI: averaged high-low) and
			// test that average for exact zero: over a window of exactly flat candles the true average is 0, the
			// computed one is 0 or a rounding residue depending on the distant past
			let flat_before = (1..=(t + 1).min(cs.len() - 1)).any(|j| cs[j].h == cs[j].l && cs[j].c == cs[j - 1].c);
			let residue_ratio = matches!(name, "AverageDirectionalIndex" | "RelativeVigorIndex") && flat_before;
			let vidya = vidya || residue_ratio;
			let sig = if residue_ratio {
				format!("C08:residue-ratio-on-flat-window:{name}:{i}")
			} else if vidya {
				format!("C08:vidya-on-rounding-noise:{name}:{i}")
			} else {
				format!("C08:{name}:prefix-value:{i}")
			};
			let f = Failure::new(sig, format!("{name} {cj}: after {k} leading copies of the first candle value #{i} at continuation step {t} is {:e}, without them {:e} (allowance {:e})", ol.values()[i], os.values()[i], tol));
			if !vidya {
				return Err(f);
			}
			deferred.get_or_insert(f);
			break;
		}
		all_equal &= os.values().iter().zip(ol.values().iter()).all(|(p, q)| (*p as f64).to_bits() == (*q as f64).to_bits());
		if all_equal {
			if let Some(i) = os.signals().iter().zip(ol.signals().iter()).position(|(x, y)| sig_bits(x) != sig_bits(y)) {
				let strict = EXACT_STATE.contains(&name);
				let sig = if strict { format!("C08:{name}:prefix-signal:{i}") } else { format!("C08:signal-on-rounding-noise:{name}:{i}") };
				let f = Failure::new(sig, format!("{name} {cj}: after {k} leading copies of the first candle signal #{i} at continuation step {t} is {:?}, without them {:?} although all values so far are bit-identical", ol.signals()[i], os.signals()[i]));
				if strict {
					return Err(f);
				}
				deferred.get_or_insert(f);
				all_equal = false;
			}
		} else {
			st.count("signal_steps_not_compared", 1);
		}
	}
	if let Some(f) = deferred {
		return Err(f);
	}
	if k >= 2 && moved {
		st.nontrivial(engine::fnv(format!("{:?}{}{:?}", c.cfg, k, &cs[..cs.len().min(8)]).as_bytes()));
	}
	st.count("steps", (cs.len() + k) as u64);
	st.class(match c.first_shape % 4 {
		0 => "first-generic",
		1 => "first-flat",
		2 => "first-zero-volume",
		_ => "first-as-generated",
	});
	st.sample(name, || serde_json::json!({"indicator": name, "config": cj, "first": cs[0], "copies": k, "stream_len": cs.len()}));
	Ok(())
}

pub fn def(tier: Tier) -> PropertyDef {
	let mut checks: Vec<Box<dyn SubCheck>> = Vec::new();
	let max_len = tier.pick(150usize, 500);
	for name in mgen::all_kind_names() {
		let strat = (mgen::method_case(name, max_len), any::<u16>()).prop_map(|(m, k)| ConstCase { m, k });
		checks.push(pt(&format!("method_{name}"), tier.pick(4000, 100000), strat, run_method));
	}
	for name in cfggen::NAMES {
		let strat = (cfggen::config_strategy(name, GenOpts::default()), gen::candle_stream(1, tier.pick(150, 400)), any::<u16>(), 0u8..4).prop_map(|(cfg, s, k, first_shape)| IConst { cfg, s, k, first_shape });
		checks.push(pt(&format!("indicator_{name}"), tier.pick(2500, 50000), strat, run_indicator));
	}
	PropertyDef {
		id: "C08",
		level: "exploration",
		rule: "Every method kind (44 + 15 MA kinds) and every indicator with generated valid parameters; first value of any sign/zero/magnitude (first candle: generic with open != close and high > low, exactly flat, zero-volume, or as generated); k in 1..3n+10 leading copies. (a) constancy: outputs of the copies equal the first output - bit-equal for exact kinds (selections, signals, positions, converters), within K*eps*(n+j)*|v|*g for arithmetic kinds (StDev on squares), NaN agreeing with NaN; (b) prefix invariance: the runs on v,s1,s2,.. and v^k,s1,s2,.. agree at every continuation step (exactly for exact kinds, within the allowance otherwise; indicator signals exactly while all values agreed bit-exactly). Exempt as the property states: Integral(0), ADI(0), ChaikinOscillator{window:0}, CollapseTimeframe, Renko volume (never emitted on constant input), first step of ParabolicSAR. Non-trivial = first value not in {0,1}, k >= 2 and a continuation that moves; distinct by hash.",
		assumptions: vec!["indicator value allowance uses the scale max(price magnitude, |outputs|, volume or price*volume for the volume-driven indicators) and gain 16".into()],
		exhaustive: false,
		checks,
	}
}
