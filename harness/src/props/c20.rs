//! C20 — PeriodType width and ValueType precision are only capacity and precision choices.
//! O1: transcript differential default vs period_type_* builds (parameters fit the default type).
//! O2: the definitional checks C02/C03/C04/C14 re-run inside each feature build (wide window
//! lengths for the wide period types, single precision for value_type_f32).

use crate::engine::{CaseResult, Failure, PropertyDef, RunCfg, Stats, SubCheck, Tier, Violation};
use crate::props::c19::{diff_checks, other_binary};
use serde_json::Value;
use std::process::Command;

pub struct Embedded {
	pub feature: String,
	pub inner: &'static str,
	pub tier: Tier,
}

impl Embedded {
	fn run_inner(&self, args: &[&str], seed: u64) -> Result<(i32, String), String> {
		let bin = other_binary(&self.feature)?;
		let out = Command::new(&bin).args(args).env("VERIF_SEED", seed.to_string()).env("VERIF_WIDE", "1").output().map_err(|e| format!("cannot run {bin}: {e}"))?;
		use std::os::unix::process::ExitStatusExt;
		// killed by SIGILL/SIGABRT/SIGBUS/SIGFPE/SIGSEGV: the feature build crashed (code 101); SIGKILL and
		// everything else (OOM killer, operator) stays infrastructure
		let code = match (out.status.code(), out.status.signal()) {
			(Some(c), _) => c,
			(None, Some(4 | 6 | 7 | 8 | 11)) => 101,
			_ => -1,
		};
		let mut text = String::from_utf8_lossy(&out.stdout).to_string();
		if code != 0 && code != 1 {
			text.push_str(&String::from_utf8_lossy(&out.stderr));
		}
		Ok((code, text))
	}
}

impl SubCheck for Embedded {
	fn name(&self) -> String {
		format!("definitional_{}_{}", self.feature.replace(',', "+"), self.inner)
	}
	fn run(&self, cfg: &RunCfg, stats: &mut Stats) -> Option<Violation> {
		let (code, text) = match self.run_inner(&["run", self.inner, self.tier.name(), "--no-evidence"], cfg.seed) {
			Ok(x) => x,
			Err(e) => {
				eprintln!("INFRASTRUCTURE: {e}");
				std::process::exit(2);
			}
		};
		// summary line: "<id> <tier> seed=.. evaluations=N distinct_nontrivial=M ..."
		let mut evals = 0u64;
		let mut nontrivial = 0u64;
		for l in text.lines() {
			if l.starts_with(self.inner) {
				for tok in l.split_whitespace() {
					if let Some(v) = tok.strip_prefix("evaluations=") {
						evals = v.parse().unwrap_or(0);
					}
					if let Some(v) = tok.strip_prefix("distinct_nontrivial=") {
						nontrivial = v.parse().unwrap_or(0);
					}
				}
			}
		}
		stats.evals += evals;
		stats.nontrivial_bulk(nontrivial);
		match code {
			0 => {
				stats.sample(&self.name(), || serde_json::json!({"feature": self.feature, "inner_check": self.inner, "evaluations": evals, "distinct_nontrivial": nontrivial}));
				None
			}
			1 => {
				let replay = text.lines().find_map(|l| l.split("replay=").nth(1)).unwrap_or("").trim().to_string();
				let detail: String = text.lines().filter(|l| l.starts_with("  ")).take(2).collect::<Vec<_>>().join(" ");
				let f = Failure::new(format!("C20:{}:{}", self.feature, self.inner), format!("the definitional check {} fails inside the build with feature(s) {}: {}", self.inner, self.feature, detail.chars().take(600).collect::<String>()));
				if cfg.is_known(&f.sig) {
					stats.excluded_known += 1;
					return None;
				}
				Some(Violation { check: self.name(), failure: f, case: serde_json::json!({"feature": self.feature, "inner": self.inner, "inner_replay": replay}) })
			}
			101 => {
				// the build with the feature crashed (abort, segfault, allocator corruption report) while the same
				// check runs to completion in the default build: the feature changed more than capacity/precision
				let last: String = text.lines().rev().filter(|l| !l.trim().is_empty()).take(2).collect::<Vec<_>>().join(" | ");
				let f = Failure::new(format!("C20:{}:{}:crash", self.feature, self.inner), format!("the build with feature(s) {} crashed while running the definitional check {}: {}", self.feature, self.inner, last.chars().take(400).collect::<String>()));
				if cfg.is_known(&f.sig) {
					stats.excluded_known += 1;
					return None;
				}
				Some(Violation { check: self.name(), failure: f, case: serde_json::json!({"feature": self.feature, "inner": self.inner, "inner_replay": "", "crash": true, "seed": cfg.seed, "tier": self.tier.name()}) })
			}
			_ => {
				eprintln!("INFRASTRUCTURE: inner check {} in build {} exited with {}: {}", self.inner, self.feature, code, text.chars().take(600).collect::<String>());
				std::process::exit(2);
			}
		}
	}
	fn replay(&self, case: &Value, stats: &mut Stats) -> CaseResult {
		stats.evals += 1;
		let inner_replay = case["inner_replay"].as_str().unwrap_or("");
		if case["crash"].as_bool() == Some(true) {
			// a crash has no inner replay file: re-run the inner check with the recorded seed
			let seed = case["seed"].as_u64().unwrap_or(0);
			let tier = case["tier"].as_str().unwrap_or("quick").to_string();
			let (code, text) = self.run_inner(&["run", self.inner, &tier, "--no-evidence"], seed).map_err(|e| Failure::new("infrastructure", e))?;
			return match code {
				0 => Ok(()),
				_ => Err(Failure::new(format!("C20:{}:{}:crash", self.feature, self.inner), text.chars().rev().take(400).collect::<String>().chars().rev().collect::<String>())),
			};
		}
		let (code, text) = self.run_inner(&["replay", self.inner, inner_replay], 0).map_err(|e| Failure::new("infrastructure", e))?;
		match code {
			0 => Ok(()),
			_ => Err(Failure::new(format!("C20:{}:{}", self.feature, self.inner), text.chars().take(600).collect::<String>())),
		}
	}
}

pub const WIDE: [&str; 3] = ["period_type_u16", "period_type_u32", "period_type_u64"];
pub const INNER: [&str; 4] = ["C02", "C03", "C04", "C14"];

pub fn def(tier: Tier) -> PropertyDef {
	let mut checks: Vec<Box<dyn SubCheck>> = Vec::new();
	// the quick tier uses four of the seven feature builds (u16, u64, f32, u16+unsafe); thorough all of them
	let wide: Vec<&str> = if tier == Tier::Thorough { WIDE.to_vec() } else { vec!["period_type_u16", "period_type_u64"] };
	let extra: Vec<&str> = if tier == Tier::Thorough { vec!["value_type_f32", "value_type_f32,unsafe_performance", "period_type_u16,unsafe_performance"] } else { vec!["value_type_f32", "period_type_u16,unsafe_performance"] };
	for f in &wide {
		checks.extend(diff_checks("C20", f, tier, 4));
	}
	checks.extend(diff_checks("C20", "period_type_u16,unsafe_performance", tier, 4));
	for f in wide.iter().copied().chain(extra) {
		for inner in INNER {
			// C02 and C04 evaluate a from-scratch formula over the whole window at every step: with window lengths
			// of several thousand their thorough tier costs an hour per build, so the quick tier runs there
			// (with the wide lengths) and the cheap recurrences and detectors run their thorough tier
			let t = if tier == Tier::Thorough && matches!(inner, "C02" | "C04") { Tier::Quick } else { tier };
			checks.push(Box::new(Embedded { feature: f.to_string(), inner, tier: t }));
		}
		if tier == Tier::Thorough {
			// the averaging laws / impulse responses and the serde round trips inside the build as well
			for inner in ["C15", "C13"] {
				checks.push(Box::new(Embedded { feature: f.to_string(), inner, tier: Tier::Quick }));
			}
		}
	}
	PropertyDef {
		id: "C20",
		level: "exploration",
		rule: "O1 (bit identity): the generated API programs of C19 (all parameters <= 254 by construction) are traced in the default build and in the period_type_u16/u32/u64 builds (and u16+unsafe_performance); lines must be identical for every program the default build accepts and does not panic on. O2 (definitional): the checks C02, C03, C04 and C14 (from-scratch formulas, recurrences, exact selections, crossing/reversal definitions) are re-run INSIDE each of the builds period_type_u16/u32/u64 (with window lengths 255, 256, 300, 1000, 5000 and 65534 added to the generated lengths), value_type_f32 (eps = f32::EPSILON, reference in f64 on the f32-rounded inputs, K unchanged) and the combinations with unsafe_performance. Non-trivial: O1 as C19; O2 = the inner checks' own non-trivial counts (measured in the child process and summed).",
		assumptions: vec!["feature builds are produced by /verif/check from the current /repo tree".into(), "the generator of programs depends only on the seed (not on PeriodType/ValueType), which the driver verifies line by line".into()],
		exhaustive: false,
		checks,
	}
}
