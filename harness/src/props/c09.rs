//! C09 — streaming, batch and chunked evaluation agree; clones are independent; peek returns
//! the value most recently produced.

use crate::cfggen::{self, CfgCase, GenOpts};
use crate::dynm::{self, In, MParams};
use crate::engine::{self, pt, CaseResult, Failure, PropertyDef, Stats, SubCheck, Tier};
use crate::gen::{self, CandleStream};
use crate::mgen::{self, MStream};
use crate::props::c11::result_bits;
use crate::{ensure, fail};
use proptest::prelude::*;
use serde::{Deserialize, Serialize};
use yata::core::{Action, Candle, Method, PeriodType, Sequence, Source, ValueType, OHLCV};
use yata::helpers::{Buffered, Peekable, WithHistory, WithLastValue};
use yata::methods::renko::RenkoOutput;
use yata::methods::*;

pub trait OutBits {
	fn bits(&self) -> Vec<u64>;
}
impl OutBits for ValueType {
	fn bits(&self) -> Vec<u64> {
		vec![(*self as f64).to_bits()]
	}
}
#[cfg(not(any(feature = "period_type_u64")))]
impl OutBits for PeriodType {
	fn bits(&self) -> Vec<u64> {
		vec![*self as u64]
	}
}
#[cfg(feature = "period_type_u64")]
impl OutBits for u64 {
	fn bits(&self) -> Vec<u64> {
		vec![*self]
	}
}
impl OutBits for Action {
	fn bits(&self) -> Vec<u64> {
		vec![match self {
			Action::None => 1 << 20,
			Action::Buy(k) => 2 << 20 | *k as u64,
			Action::Sell(k) => 3 << 20 | *k as u64,
		}]
	}
}
impl OutBits for Candle {
	fn bits(&self) -> Vec<u64> {
		[self.open, self.high, self.low, self.close, self.volume].iter().map(|x| (*x as f64).to_bits()).collect()
	}
}
impl OutBits for Option<Candle> {
	fn bits(&self) -> Vec<u64> {
		match self {
			None => vec![0],
			Some(c) => {
				let mut v = vec![1];
				v.extend(c.bits());
				v
			}
		}
	}
}
impl OutBits for RenkoOutput {
	fn bits(&self) -> Vec<u64> {
		let mut v = vec![self.clone().len() as u64];
		for b in self.clone().take(32) {
			v.extend([b.open, b.close, b.volume].iter().map(|x| (*x as f64).to_bits()));
		}
		v
	}
}

#[derive(Serialize, Deserialize, Clone, Debug)]
pub struct BatchCase {
	pub m: MStream,
	/// cut points (mapped monotonically into 0..=len); duplicates give empty chunks
	pub cuts: Vec<u16>,
	pub clone_at: u16,
}

fn cut_points(cuts: &[u16], len: usize) -> Vec<usize> {
	let mut v: Vec<usize> = cuts.iter().map(|c| (*c as usize * (len + 1)) >> 16).collect();
	v.push(0);
	v.push(len);
	v.sort();
	v
}

fn eq_seq<T: OutBits>(a: &[T], b: &[Vec<u64>]) -> Option<usize> {
	if a.len() != b.len() {
		return Some(a.len().min(b.len()));
	}
	a.iter().zip(b.iter()).position(|(x, y)| x.bits() != *y)
}

macro_rules! differs {
	($name:expr, $what:literal, $got:expr, $reference:expr) => {
		if let Some(i) = eq_seq(&$got, &$reference) {
			fail!(&format!("C09:{}:{}", $name, $what), "{}: {} gives {} outputs for {} inputs and first differs from element-wise next at position {}", $name, $what, $got.len(), $reference.len(), i);
		}
	};
}

/// laws available to every method (also unsized inputs): element-wise reference, into_fn, new_fn,
/// with_history, with_last_value, clone independence
fn common_laws<M, I: ?Sized>(name: &str, params: M::Params, xs: &[&I], clone_at: usize, st: &mut Stats) -> Result<Vec<Vec<u64>>, Failure>
where
	M: Method<Input = I> + Clone + 'static,
	M::Params: Clone,
	M::Output: OutBits + Clone + std::fmt::Debug,
	I: 'static,
{
	let mk = || M::new(params.clone(), xs[0]).map_err(|e| Failure::new(format!("C09:{name}:ctor"), format!("{e:?}")));
	let mut a = mk()?;
	let reference: Vec<Vec<u64>> = xs.iter().map(|x| a.next(x).bits()).collect();
	// a second identical instance: bit-identical output
	let mut b = mk()?;
	let again: Vec<M::Output> = xs.iter().map(|x| b.next(x)).collect();
	differs!(name, "identical-instance", again, reference);
	// with_history
	let mut h: WithHistory<M, M::Output> = M::with_history(params.clone(), xs[0]).map_err(|e| Failure::new(format!("C09:{name}:ctor"), format!("{e:?}")))?;
	let mut outs = Vec::new();
	for (t, x) in xs.iter().enumerate() {
		outs.push(h.next(x));
		ensure!(h.get(0).map(|v| v.bits()) == Some(reference[t].clone()), &format!("C09:{name}:history-get0"), "{name}: WithHistory::get(0) is not the newest output at step {t}");
		ensure!(h.get(t + 1).is_none(), &format!("C09:{name}:history-get-oob"), "{name}: WithHistory::get({}) returns a value after {} outputs", t + 1, t + 1);
	}
	differs!(name, "with_history-next", outs, reference);
	for i in 0..xs.len() {
		ensure!(Buffered::get(&h, i).map(|v| v.bits()) == Some(reference[xs.len() - 1 - i].clone()), &format!("C09:{name}:history-get"), "{name}: WithHistory::get({i}) is not the {i}-th newest output");
	}
	let it: Vec<M::Output> = h.iter().cloned().collect();
	differs!(name, "history-iter", it, reference);
	let it: Vec<M::Output> = (&h).into_iter().cloned().collect();
	differs!(name, "history-ref-into_iter", it, reference);
	let it: Vec<M::Output> = h.into_iter().collect();
	differs!(name, "history-into_iter", it, reference);
	// with_last_value: the inner instance was fed the initial value once
	let mut plain = mk()?;
	let first = plain.next(xs[0]);
	let mut l: WithLastValue<M, M::Output> = M::with_last_value(params.clone(), xs[0]).map_err(|e| Failure::new(format!("C09:{name}:ctor"), format!("{e:?}")))?;
	ensure!(l.peek().bits() == first.bits(), &format!("C09:{name}:last-value-initial"), "{name}: WithLastValue::peek() before any next is not the output of feeding the initial value once");
	for (t, x) in xs.iter().enumerate() {
		let e = plain.next(x);
		let g = l.next(x);
		ensure!(g.bits() == e.bits(), &format!("C09:{name}:last-value-next"), "{name}: WithLastValue::next differs from the inner method at step {t}");
		ensure!(l.peek().bits() == e.bits(), &format!("C09:{name}:last-value-peek"), "{name}: WithLastValue::peek is not the last output at step {t}");
	}
	// into_fn / new_fn
	let mut f = mk()?.into_fn();
	let got: Vec<M::Output> = xs.iter().map(|x| f(x)).collect();
	differs!(name, "into_fn", got, reference);
	let mut f = M::new_fn(params.clone(), xs[0]).map_err(|e| Failure::new(format!("C09:{name}:ctor"), format!("{e:?}")))?;
	let got: Vec<M::Output> = xs.iter().map(|x| f(x)).collect();
	differs!(name, "new_fn", got, reference);
	// clone independence: original and clone get different continuations
	let k = clone_at.min(xs.len());
	let mut orig = mk()?;
	for x in &xs[..k] {
		orig.next(x);
	}
	let mut cl = orig.clone();
	let cont_a: Vec<&I> = xs[k..].to_vec();
	let cont_b: Vec<&I> = xs[..xs.len() - k.min(xs.len())].iter().rev().copied().collect();
	// interleave the two so that anything shared would show
	let mut out_a = Vec::new();
	let mut out_b = Vec::new();
	for i in 0..cont_a.len().max(cont_b.len()) {
		if i < cont_a.len() {
			out_a.push(orig.next(cont_a[i]));
		}
		if i < cont_b.len() {
			out_b.push(cl.next(cont_b[i]));
		}
	}
	let replay = |cont: &[&I]| -> Result<Vec<Vec<u64>>, Failure> {
		let mut m = mk()?;
		for x in &xs[..k] {
			m.next(x);
		}
		Ok(cont.iter().map(|x| m.next(x).bits()).collect())
	};
	let (ra, rb) = (replay(&cont_a)?, replay(&cont_b)?);
	differs!(name, "clone-original-affected", out_a, ra);
	differs!(name, "clone-diverges", out_b, rb);
	st.count("steps", xs.len() as u64);
	Ok(reference)
}

/// laws that need a sized input: over / call / new_over in chunks
fn sized_laws<M>(name: &str, params: M::Params, xs: &[M::Input], cuts: &[usize], reference: &[Vec<u64>]) -> CaseResult
where
	M: Method + Clone + 'static,
	M::Params: Clone,
	M::Input: Sized + Clone,
	M::Output: OutBits + Clone + std::fmt::Debug,
	Vec<M::Input>: Sequence<M::Input>,
	for<'a> &'a [M::Input]: Sequence<M::Input>,
{
	let mk = || M::new(params.clone(), &xs[0]).map_err(|e| Failure::new(format!("C09:{name}:ctor"), format!("{e:?}")));
	// over in chunks (incl. empty ones)
	let mut m = mk()?;
	let mut got: Vec<M::Output> = Vec::new();
	for w in cuts.windows(2) {
		let chunk = &xs[w[0]..w[1]];
		let o = m.over(chunk);
		ensure!(o.len() == chunk.len(), &format!("C09:{name}:over-len"), "{name}: over() returned {} outputs for a chunk of {}", o.len(), chunk.len());
		got.extend(o);
	}
	differs!(name, "over-chunked", got, reference);
	// Sequence::call in chunks on a Vec
	let mut m = mk()?;
	let mut got: Vec<M::Output> = Vec::new();
	for w in cuts.windows(2) {
		let chunk: Vec<M::Input> = xs[w[0]..w[1]].to_vec();
		got.extend(chunk.call(&mut m));
	}
	differs!(name, "call-chunked", got, reference);
	// new_over: whole stream, and the empty stream
	let got = M::new_over(params.clone(), xs).map_err(|e| Failure::new(format!("C09:{name}:new_over"), format!("{e:?}")))?;
	differs!(name, "new_over", got, reference);
	let empty: Vec<M::Input> = Vec::new();
	let got = M::new_over(params.clone(), &empty[..]);
	ensure!(matches!(&got, Ok(v) if v.is_empty()), &format!("C09:{name}:new_over-empty"), "{name}: new_over on an empty sequence is not Ok(empty)");
	let mut m = mk()?;
	ensure!(m.over(&empty[..]).is_empty(), &format!("C09:{name}:over-empty"), "{name}: over on an empty sequence returns outputs");
	Ok(())
}

/// in-place application for methods whose input and output types coincide
fn apply_laws<M>(name: &str, params: M::Params, xs: &[ValueType], cuts: &[usize], reference: &[Vec<u64>]) -> CaseResult
where
	M: Method<Input = ValueType, Output = ValueType> + Clone + 'static,
	M::Params: Clone,
{
	let mut m = M::new(params.clone(), &xs[0]).map_err(|e| Failure::new(format!("C09:{name}:ctor"), format!("{e:?}")))?;
	let mut got: Vec<ValueType> = Vec::new();
	for w in cuts.windows(2) {
		let mut chunk: Vec<ValueType> = xs[w[0]..w[1]].to_vec();
		m.apply(&mut chunk);
		ensure!(chunk.len() == w[1] - w[0], &format!("C09:{name}:apply-len"), "{name}: apply changed the length");
		got.extend(chunk);
	}
	differs!(name, "apply-chunked", got, reference);
	let mut v = xs.to_vec();
	M::new_apply(params.clone(), &mut v).map_err(|e| Failure::new(format!("C09:{name}:new_apply"), format!("{e:?}")))?;
	differs!(name, "new_apply", v, reference);
	let mut e: Vec<ValueType> = Vec::new();
	ensure!(M::new_apply(params, &mut e).is_ok() && e.is_empty(), &format!("C09:{name}:new_apply-empty"), "{name}: new_apply on an empty sequence");
	Ok(())
}

fn plen(p: &MParams) -> Option<PeriodType> {
	match p {
		MParams::Len(n) => Some(*n as PeriodType),
		_ => None,
	}
}
fn ppair(p: &MParams) -> Option<(PeriodType, PeriodType)> {
	match p {
		MParams::Pair(a, b) => Some((*a as PeriodType, *b as PeriodType)),
		_ => None,
	}
}

fn vals(xs: &[In]) -> Vec<ValueType> {
	xs.iter()
		.map(|x| match x {
			In::V(v) => *v as ValueType,
			In::P(a, _) => *a as ValueType,
			In::C(c) => c.c as ValueType,
		})
		.collect()
}
fn pairs(xs: &[In]) -> Vec<(ValueType, ValueType)> {
	xs.iter()
		.map(|x| match x {
			In::P(a, b) => (*a as ValueType, *b as ValueType),
			In::V(v) => (*v as ValueType, *v as ValueType),
			In::C(c) => (c.c as ValueType, c.v as ValueType),
		})
		.collect()
}
fn candles(xs: &[In]) -> Vec<Candle> {
	xs.iter()
		.map(|x| match x {
			In::C(c) => c.candle(),
			In::V(v) => Candle { open: *v as ValueType, high: *v as ValueType, low: *v as ValueType, close: *v as ValueType, volume: 1.0 },
			In::P(a, b) => Candle { open: *a as ValueType, high: *a as ValueType, low: *a as ValueType, close: *a as ValueType, volume: *b as ValueType },
		})
		.collect()
}

fn run_batch(c: &BatchCase, st: &mut Stats) -> CaseResult {
	let name = c.m.kind.as_str();
	let p = &c.m.params;
	let n = c.m.xs.len();
	let cuts = cut_points(&c.cuts, n);
	let clone_at = (c.clone_at as usize * (n + 1)) >> 16;
	let bad = || Failure::new("C09:harness", format!("parameter kind mismatch for {name}"));
	macro_rules! vv {
		($ty:ty, $params:expr) => {{
			let xs = vals(&c.m.xs);
			let refs: Vec<&ValueType> = xs.iter().collect();
			let params = $params;
			let r = common_laws::<$ty, ValueType>(name, params.clone(), &refs, clone_at, st)?;
			sized_laws::<$ty>(name, params.clone(), &xs, &cuts, &r)?;
			apply_laws::<$ty>(name, params, &xs, &cuts, &r)?;
		}};
	}
	macro_rules! v_other {
		($ty:ty, $params:expr) => {{
			let xs = vals(&c.m.xs);
			let refs: Vec<&ValueType> = xs.iter().collect();
			let params = $params;
			let r = common_laws::<$ty, ValueType>(name, params.clone(), &refs, clone_at, st)?;
			sized_laws::<$ty>(name, params, &xs, &cuts, &r)?;
		}};
	}
	macro_rules! pp {
		($ty:ty, $params:expr) => {{
			let xs = pairs(&c.m.xs);
			let refs: Vec<&(ValueType, ValueType)> = xs.iter().collect();
			let params = $params;
			// no Sequence impl exists for pairs, so over/call/apply are not available for these methods
			common_laws::<$ty, (ValueType, ValueType)>(name, params.clone(), &refs, clone_at, st)?;
		}};
	}
	macro_rules! dd {
		($ty:ty, $params:expr) => {{
			let xs = candles(&c.m.xs);
			let refs: Vec<&dyn OHLCV> = xs.iter().map(|x| x as &dyn OHLCV).collect();
			common_laws::<$ty, dyn OHLCV>(name, $params, &refs, clone_at, st)?;
		}};
	}
	match name {
		"SMA" => vv!(SMA, plen(p).ok_or_else(bad)?),
		"WMA" => vv!(WMA, plen(p).ok_or_else(bad)?),
		"EMA" => vv!(EMA, plen(p).ok_or_else(bad)?),
		"DMA" => vv!(DMA, plen(p).ok_or_else(bad)?),
		"TMA" => vv!(TMA, plen(p).ok_or_else(bad)?),
		"DEMA" => vv!(DEMA, plen(p).ok_or_else(bad)?),
		"TEMA" => vv!(TEMA, plen(p).ok_or_else(bad)?),
		"WSMA" => vv!(WSMA, plen(p).ok_or_else(bad)?),
		"RMA" => vv!(RMA, plen(p).ok_or_else(bad)?),
		"SMM" => vv!(SMM, plen(p).ok_or_else(bad)?),
		"HMA" => vv!(HMA, plen(p).ok_or_else(bad)?),
		"LinReg" => vv!(LinReg, plen(p).ok_or_else(bad)?),
		"SWMA" => vv!(SWMA, plen(p).ok_or_else(bad)?),
		"TRIMA" => vv!(TRIMA, plen(p).ok_or_else(bad)?),
		"Derivative" => vv!(Derivative, plen(p).ok_or_else(bad)?),
		"Integral" => vv!(Integral, plen(p).ok_or_else(bad)?),
		"Momentum" => vv!(Momentum, plen(p).ok_or_else(bad)?),
		"RateOfChange" => vv!(RateOfChange, plen(p).ok_or_else(bad)?),
		"StDev" => vv!(StDev, plen(p).ok_or_else(bad)?),
		"LinearVolatility" => vv!(LinearVolatility, plen(p).ok_or_else(bad)?),
		"CCI" => vv!(CCI, plen(p).ok_or_else(bad)?),
		"MeanAbsDev" => vv!(MeanAbsDev, plen(p).ok_or_else(bad)?),
		"MedianAbsDev" => vv!(MedianAbsDev, plen(p).ok_or_else(bad)?),
		"Vidya" => vv!(Vidya, plen(p).ok_or_else(bad)?),
		"Highest" => vv!(Highest, plen(p).ok_or_else(bad)?),
		"Lowest" => vv!(Lowest, plen(p).ok_or_else(bad)?),
		"HighestLowestDelta" => vv!(HighestLowestDelta, plen(p).ok_or_else(bad)?),
		"Past" => vv!(Past<ValueType>, plen(p).ok_or_else(bad)?),
		"TSI" => vv!(TSI, ppair(p).ok_or_else(bad)?),
		"Conv" => vv!(
			Conv,
			match p {
				MParams::Weights(w) => w.iter().map(|x| *x as ValueType).collect::<Vec<ValueType>>(),
				_ => return Err(bad()),
			}
		),
		"HighestIndex" => v_other!(HighestIndex, plen(p).ok_or_else(bad)?),
		"LowestIndex" => v_other!(LowestIndex, plen(p).ok_or_else(bad)?),
		"ReversalSignal" => v_other!(ReversalSignal, ppair(p).ok_or_else(bad)?),
		"UpperReversalSignal" => v_other!(UpperReversalSignal, ppair(p).ok_or_else(bad)?),
		"LowerReversalSignal" => v_other!(LowerReversalSignal, ppair(p).ok_or_else(bad)?),
		"VWMA" => pp!(VWMA, plen(p).ok_or_else(bad)?),
		"Cross" => pp!(Cross, ()),
		"CrossAbove" => pp!(CrossAbove, ()),
		"CrossUnder" => pp!(CrossUnder, ()),
		"CollapseTimeframe" => {
			let xs = candles(&c.m.xs);
			let refs: Vec<&Candle> = xs.iter().collect();
			let params = match p {
				MParams::Collapse(n) => *n,
				_ => return Err(bad()),
			};
			let r = common_laws::<CollapseTimeframe<Candle>, Candle>(name, params, &refs, clone_at, st)?;
			sized_laws::<CollapseTimeframe<Candle>>(name, params, &xs, &cuts, &r)?;
		}
		"ADI" => dd!(ADI, plen(p).ok_or_else(bad)?),
		"TR" => dd!(TR, ()),
		"HeikinAshi" => dd!(HeikinAshi, ()),
		"Renko" => dd!(
			Renko,
			match p {
				MParams::Renko(b, s) => (*b as ValueType, dynm::SOURCES[*s as usize % 8]),
				_ => return Err(bad()),
			}
		),
		_ => return Ok(()),
	}
	let _: Option<Source> = None;
	let nonempty = cuts.windows(2).filter(|w| w[1] > w[0]).count();
	let empty = cuts.windows(2).filter(|w| w[1] == w[0]).count();
	if (nonempty >= 2 && empty >= 1) || (clone_at > 0 && clone_at % c.m.span().max(1) != 0) {
		st.nontrivial(engine::fnv(format!("{:?}{:?}{}", c.m.params, cuts, clone_at).as_bytes()) ^ engine::fnv(format!("{:?}", &c.m.xs[..c.m.xs.len().min(10)]).as_bytes()));
	}
	st.sample(name, || serde_json::json!({"kind": name, "params": c.m.params, "stream_len": n, "cuts": cuts, "clone_at": clone_at}));
	Ok(())
}

// ---------------------------------------------------------------------------------------
// peek

fn run_peek(c: &MStream, st: &mut Stats) -> CaseResult {
	let kind = dynm::kind(&c.kind).ok_or_else(|| Failure::new("C09:harness", "unknown kind"))?;
	let name = kind.name;
	let mut m = (kind.make)(&c.params, &c.xs[0]).map_err(|e| Failure::new(format!("C09:{name}:ctor"), format!("{e:?}")))?;
	let cls = match &c.params {
		MParams::Len(1) => "len1",
		_ => "other",
	};
	for (t, x) in c.xs.iter().enumerate() {
		let o = m.next(x);
		let p = m.peek().ok_or_else(|| Failure::new("C09:harness", format!("{name} has no peek")))?;
		ensure!(p.same_bits(&o), &format!("C09:{name}:peek:{cls}"), "{name} {:?} step {t}: next returned {:?} but peek() gives {:?}", c.params, o, p);
		// peeking twice does not change anything
		ensure!(m.peek().unwrap().same_bits(&p), &format!("C09:{name}:peek-stable"), "{name}: two peeks differ");
	}
	if c.xs.len() > 2 {
		st.nontrivial(engine::fnv(format!("{:?}{:?}", c.params, &c.xs[..c.xs.len().min(10)]).as_bytes()));
	}
	st.sample(name, || serde_json::json!({"kind": name, "params": c.params, "stream_len": c.xs.len()}));
	Ok(())
}

// ---------------------------------------------------------------------------------------
// indicators

#[derive(Serialize, Deserialize, Clone, Debug)]
pub struct IBatch {
	pub cfg: CfgCase,
	pub s: CandleStream,
	pub cuts: Vec<u16>,
	pub clone_at: u16,
}

pub fn run_ibatch(c: &IBatch, st: &mut Stats) -> CaseResult {
	let cfg = cfggen::instantiate(&c.cfg).map_err(|e| Failure::new("C09:generator", format!("{}: {e}", c.cfg.name)))?;
	let name = c.cfg.name.as_str();
	let cs: Vec<Candle> = c.s.cs.iter().map(|k| k.candle()).collect();
	let mk = || cfg.init(&cs[0]).map_err(|e| Failure::new(format!("C09:{name}:init"), format!("{}: {e:?}", cfg.to_json())));
	let mut a = mk()?;
	let reference: Vec<Vec<u64>> = cs.iter().map(|x| result_bits(&a.next(x))).collect();
	let same = |got: &[yata::core::IndicatorResult], what: &str| -> CaseResult {
		ensure!(got.len() == reference.len(), &format!("C09:{name}:{what}-len"), "{name}: {what} returned {} results for {} candles", got.len(), reference.len());
		if let Some(i) = got.iter().zip(reference.iter()).position(|(x, y)| result_bits(x) != *y) {
			fail!(&format!("C09:{name}:{what}"), "{name} {}: {what} differs from element-wise next at position {i}: {:?}", cfg.to_json(), got[i]);
		}
		Ok(())
	};
	// config-level over and init_fn
	same(&cfg.over(&cs).map_err(|e| Failure::new(format!("C09:{name}:over"), format!("{e:?}")))?, "config-over")?;
	same(&cfg.via_init_fn(&cs).map_err(|e| Failure::new(format!("C09:{name}:init_fn"), format!("{e:?}")))?, "init_fn")?;
	let empty: Vec<Candle> = Vec::new();
	ensure!(matches!(cfg.over(&empty), Ok(v) if v.is_empty()), &format!("C09:{name}:over-empty"), "{name}: over on no candles is not Ok(empty)");
	// instance-level over in chunks, into_fn
	let cuts = cut_points(&c.cuts, cs.len());
	let mut b = mk()?;
	let mut got = Vec::new();
	for w in cuts.windows(2) {
		let o = b.over(&cs[w[0]..w[1]]);
		ensure!(o.len() == w[1] - w[0], &format!("C09:{name}:over-len"), "{name}: instance over() returned {} results for {} candles", o.len(), w[1] - w[0]);
		got.extend(o);
	}
	same(&got, "instance-over-chunked")?;
	same(&mk()?.via_into_fn(&cs), "into_fn")?;
	// clone independence
	let k = (c.clone_at as usize * (cs.len() + 1)) >> 16;
	let mut orig = mk()?;
	for x in &cs[..k] {
		orig.next(x);
	}
	let mut cl = orig.clone_box();
	let cont_b: Vec<Candle> = cs[..cs.len() - k].iter().rev().copied().collect();
	let mut out_a = Vec::new();
	let mut out_b = Vec::new();
	for i in 0..(cs.len() - k).max(cont_b.len()) {
		if k + i < cs.len() {
			out_a.push(orig.next(&cs[k + i]));
		}
		if i < cont_b.len() {
			out_b.push(cl.next(&cont_b[i]));
		}
	}
	ensure!(out_a.iter().zip(reference[k..].iter()).all(|(x, y)| result_bits(x) == *y), &format!("C09:{name}:clone-original-affected"), "{name}: the original changed behaviour after a clone was taken at step {k} and used");
	let mut rep = mk()?;
	for x in &cs[..k] {
		rep.next(x);
	}
	for (i, x) in cont_b.iter().enumerate() {
		let e = rep.next(x);
		ensure!(result_bits(&e) == result_bits(&out_b[i]), &format!("C09:{name}:clone-diverges"), "{name}: a clone taken at step {k} differs from a replayed instance at step {i} of its own continuation");
	}
	let nonempty = cuts.windows(2).filter(|w| w[1] > w[0]).count();
	let empty_chunks = cuts.windows(2).filter(|w| w[1] == w[0]).count();
	if nonempty >= 2 && empty_chunks >= 1 || k > 0 {
		st.nontrivial(engine::fnv(format!("{:?}{:?}{}{:?}", c.cfg, cuts, k, &c.s.cs[..c.s.cs.len().min(8)]).as_bytes()));
	}
	st.count("steps", cs.len() as u64);
	st.sample(name, || serde_json::json!({"indicator": name, "config": cfg.to_json(), "stream_len": cs.len(), "cuts": cuts, "clone_at": k}));
	Ok(())
}

// ---------------------------------------------------------------------------------------
// documented accessors agree with the main path

/// `get_last_value` / `get_value` / `b()` return the value `next` has just produced (bit-exact), `get_divider`
/// is 1/length, `get_window` / `get_sma` / `get_smm` expose the state the outputs are computed from, and
/// LinReg's `tan()` is the slope of the line whose newest point `next` returns.
fn run_accessors(c: &gen::ValStream, st: &mut Stats) -> CaseResult {
	use crate::approx::{allow, eps, Mag};
	use crate::refm::{self, sel, win};
	let n = (c.n.clamp(2, 254)) as PeriodType;
	let nn = n as usize;
	let xs: Vec<f64> = c.xs.iter().map(|x| gen::vt(*x)).collect();
	let init = gen::vt(c.init);
	let v = |x: f64| x as ValueType;
	let mut sma = SMA::new(n, &v(init)).map_err(|e| Failure::new("C09:accessors:ctor", format!("{e:?}")))?;
	let mut smm = SMM::new(n, &v(init)).map_err(|e| Failure::new("C09:accessors:ctor", format!("{e:?}")))?;
	let mut vid = Vidya::new(n, &v(init)).map_err(|e| Failure::new("C09:accessors:ctor", format!("{e:?}")))?;
	let mut lin = LinReg::new(n, &v(init)).map_err(|e| Failure::new("C09:accessors:ctor", format!("{e:?}")))?;
	let mut mad = MeanAbsDev::new(n, &v(init)).map_err(|e| Failure::new("C09:accessors:ctor", format!("{e:?}")))?;
	let mut med = MedianAbsDev::new(n, &v(init)).map_err(|e| Failure::new("C09:accessors:ctor", format!("{e:?}")))?;
	ensure!(sma.get_divider() as f64 == ((n as ValueType).recip()) as f64, "C09:SMA:get_divider", "SMA({n}).get_divider() = {:e}", sma.get_divider());
	let mut mag = Mag::new(init);
	for (t, &x) in xs.iter().enumerate() {
		let m = mag.add(x);
		let w = refm::window(&xs, init, t, nn);
		let o = sma.next(&v(x));
		ensure!(sma.get_last_value().to_bits() == o.to_bits(), "C09:SMA:get_last_value", "SMA({n}) step {t}: get_last_value() = {:e}, next returned {:e}", sma.get_last_value(), o);
		let got: Vec<f64> = sma.get_window().iter_rev().map(|y| *y as f64).collect();
		ensure!(got == w, "C09:SMA:get_window", "SMA({n}) step {t}: get_window() does not hold the last {n} inputs");
		let o = smm.next(&v(x));
		ensure!(smm.get_last_value().to_bits() == o.to_bits() || (smm.get_last_value() == o && o == 0.0), "C09:SMM:get_last_value", "SMM({n}) step {t}: get_last_value() = {:e}, next returned {:e}", smm.get_last_value(), o);
		let o = vid.next(&v(x));
		ensure!(vid.get_last_value().to_bits() == o.to_bits(), "C09:Vidya:get_last_value", "Vidya({n}) step {t}: get_last_value() = {:e}, next returned {:e}", vid.get_last_value(), o);
		let o = lin.next(&v(x));
		ensure!(lin.b().to_bits() == o.to_bits(), "C09:LinReg:b", "LinReg({n}) step {t}: b() = {:e}, next returned {:e}", lin.b(), o);
		// the least-squares line through the window passes through (mean position, mean value): value at the newest
		// point = mean + slope * (n-1)/2
		let mean = win::mean(&w);
		let slope = (o as f64 - mean) * 2.0 / (nn as f64 - 1.0);
		let tol = 8.0 * allow(nn, t, m, 6.0) / (nn as f64 - 1.0) + 8.0 * eps() * slope.abs();
		ensure!((lin.tan() as f64 - slope).abs() <= tol, "C09:LinReg:tan", "LinReg({n}) step {t}: tan() = {:e}, the line through the returned value and the window mean has slope {:e} (allowance {:e})", lin.tan(), slope, tol);
		mad.next(&v(x));
		let a = allow(nn, t, m, 1.0);
		ensure!((mad.get_sma().peek() as f64 - mean).abs() <= a, "C09:MeanAbsDev:get_sma", "MeanAbsDev({n}) step {t}: get_sma().peek() = {:e}, window mean {:e}", mad.get_sma().peek(), mean);
		med.next(&v(x));
		ensure!(med.get_smm().peek() as f64 == sel::median(&w), "C09:MedianAbsDev:get_smm", "MedianAbsDev({n}) step {t}: get_smm().peek() = {:e}, window median {:e}", med.get_smm().peek(), sel::median(&w));
	}
	if xs.len() > 2 * nn {
		st.nontrivial(engine::mix(n as u64, engine::fnv_f64s(&xs)));
	}
	st.count("steps", xs.len() as u64);
	st.sample("accessors", || serde_json::json!({"n": n, "stream_len": xs.len(), "init": init}));
	Ok(())
}

fn run_accessors_adi(c: &CandleStream, st: &mut Stats) -> CaseResult {
	let n = (c.n % 40) as PeriodType;
	let mut m = ADI::new(n, &c.cs[0].candle()).map_err(|e| Failure::new("C09:accessors:ctor", format!("{e:?}")))?;
	for (t, k) in c.cs.iter().enumerate() {
		let o = m.next(&k.candle());
		ensure!(m.get_value().to_bits() == o.to_bits(), "C09:ADI:get_value", "ADI({n}) step {t}: get_value() = {:e}, next returned {:e}", m.get_value(), o);
	}
	if c.cs.len() > 3 {
		st.nontrivial(engine::fnv(format!("{:?}{}", &c.cs[..c.cs.len().min(8)], n).as_bytes()));
	}
	Ok(())
}

pub fn def(tier: Tier) -> PropertyDef {
	let mut checks: Vec<Box<dyn SubCheck>> = Vec::new();
	let max_len = tier.pick(100usize, 200);
	for name in mgen::all_kind_names() {
		if name.starts_with("MA::") {
			continue;
		}
		let strat = (mgen::method_case(name, max_len), proptest::collection::vec(any::<u16>(), 0..6), any::<u16>()).prop_map(|(m, mut cuts, clone_at)| {
			// force an empty chunk now and then
			if clone_at % 3 == 0 && !cuts.is_empty() {
				let d = cuts[0];
				cuts.push(d);
			}
			BatchCase { m, cuts, clone_at }
		});
		checks.push(pt(&format!("batch_{name}"), tier.pick(2500, 60000), strat, run_batch));
	}
	// the same laws on streams several times longer than PeriodType::MAX of the default build: the history of
	// WithHistory is unbounded, and chunk / clone positions beyond 255 must behave like the early ones
	let long_len = tier.pick(700usize, 2000);
	for name in mgen::all_kind_names() {
		if name.starts_with("MA::") {
			continue;
		}
		let strat = (mgen::method_case(name, long_len), proptest::collection::vec(any::<u16>(), 0..6), any::<u16>()).prop_map(|(m, cuts, clone_at)| BatchCase { m, cuts, clone_at });
		checks.push(pt(&format!("long_batch_{name}"), tier.pick(60, 600), strat, run_batch));
	}
	for k in dynm::kinds() {
		if k.has_peek {
			checks.push(pt(&format!("peek_{}", k.name), tier.pick(2500, 60000), mgen::method_case(k.name, max_len), run_peek));
		}
	}
	for name in cfggen::NAMES {
		let strat = (cfggen::config_strategy(name, GenOpts::default()), gen::candle_stream(1, tier.pick(120, 300)), proptest::collection::vec(any::<u16>(), 0..5), any::<u16>()).prop_map(|(cfg, s, mut cuts, clone_at)| {
			if clone_at % 3 == 0 && !cuts.is_empty() {
				let d = cuts[0];
				cuts.push(d);
			}
			IBatch { cfg, s, cuts, clone_at }
		});
		checks.push(pt(&format!("indicator_{name}"), tier.pick(1200, 30000), strat, run_ibatch));
	}
	checks.push(pt("accessors", tier.pick(6000, 60000), gen::val_stream(2, tier.pick(300, 1000), gen::Domain::Any, true), run_accessors));
	checks.push(pt("accessors_adi", tier.pick(3000, 30000), gen::candle_stream(1, 300), run_accessors_adi));
	checks.extend(crate::fuzz_entry::corpus_checks("C09"));
	PropertyDef {
		id: "C09",
		level: "exploration",
		rule: "Per method (44 concrete types, instantiated statically): generated valid parameters and streams of 1..200 elements (sub-checks long_batch_*: up to 700, thorough 2000, so that histories, chunk and clone positions pass PeriodType::MAX), generated chunkings incl. empty chunks, generated clone points. Reference = element-wise next on a twin instance; over/call/apply in chunks, new_over/new_apply (empty input => Ok(empty)), into_fn, new_fn must return bit-identical sequences of exactly the input length; WithHistory against a Vec model (get(i) = i-th newest, iter/into_iter oldest first); WithLastValue = inner instance fed the initial value once, peek = last output; clone fed a different continuation than the original, each equal to a third instance replayed on its own history. Peekable::peek() after each next = the value just returned, for each of the 30 Peekable impls; the documented accessors (SMA/SMM/Vidya get_last_value, ADI get_value, LinReg b()/tan(), SMA get_divider/get_window, MeanAbsDev get_sma, MedianAbsDev get_smm) agree with the main path. Indicators: IndicatorConfig::over/init_fn, IndicatorInstance::over (chunked)/into_fn, clone independence. Non-trivial = >= 2 non-empty chunks and an empty one, or a clone taken at a rotated ring position; distinct by hash.",
		assumptions: vec!["methods with unsized input (dyn OHLCV: ADI, TR, HeikinAshi, Renko) or pair input (VWMA, Cross*; no Sequence impl for pairs) have no over/call/apply; they are covered by into_fn/new_fn/wrappers/clone".into()],
		exhaustive: false,
		checks,
	}
}
