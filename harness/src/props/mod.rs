use crate::engine::{PropertyDef, Tier};

pub mod c01;
pub mod c02;
pub mod c03;
pub mod c04;
pub mod c05;
pub mod c06;
pub mod c07;
pub mod c08;
pub mod c09;
pub mod c10;
pub mod c11;
pub mod c12;
pub mod c13;
pub mod c14;
pub mod c15;
pub mod c16;
pub mod c17;
pub mod c18;
pub mod c19;
pub mod c20;

pub fn property(id: &str, tier: Tier) -> Option<PropertyDef> {
	match id {
		"C01" => Some(c01::def(tier)),
		"C16" => Some(c16::def(tier)),
		"C17" => Some(c17::def(tier)),
		"C18" => Some(c18::def(tier)),
		"C19" => Some(c19::def(tier)),
		"C20" => Some(c20::def(tier)),
		"C15" => Some(c15::def(tier)),
		"C14" => Some(c14::def(tier)),
		"C05" => Some(c05::def(tier)),
		"C06" => Some(c06::def(tier)),
		"C07" => Some(c07::def(tier)),
		"C12" => Some(c12::def(tier)),
		"C08" => Some(c08::def(tier)),
		"C09" => Some(c09::def(tier)),
		"C13" => Some(c13::def(tier)),
		"C11" => Some(c11::def(tier)),
		"C10" => Some(c10::def(tier)),
		"C02" => Some(c02::def(tier)),
		"C03" => Some(c03::def(tier)),
		"C04" => Some(c04::def(tier)),
		_ => None,
	}
}

pub const ALL: &[&str] = &["C01", "C02", "C03", "C04", "C05", "C06", "C07", "C08", "C09", "C10", "C11", "C12", "C13", "C14", "C15", "C16", "C17", "C18", "C19", "C20"];
