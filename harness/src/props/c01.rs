//! C01 — Window is a faithful fixed-capacity FIFO for every size, phase and history.
//!
//! Oracle: `VecDeque<u32>` of distinct labels (front = oldest). Every observer of the real
//! window is compared with the model after every push.

use crate::engine::{self, enumerate, pt, CaseResult, PropertyDef, Stats, SubCheck, Tier};
use crate::{ensure, fail};
use proptest::prelude::*;
use serde::{de::DeserializeOwned, Deserialize, Serialize};
use std::collections::VecDeque;
use yata::core::{PeriodType, Window};

pub trait Label: Clone + Serialize + DeserializeOwned + 'static {
	fn mk(v: u32) -> Self;
	fn id(&self) -> u32;
}
impl Label for u32 {
	fn mk(v: u32) -> Self {
		v
	}
	fn id(&self) -> u32 {
		*self
	}
}
impl Label for Box<u32> {
	fn mk(v: u32) -> Self {
		Box::new(v)
	}
	fn id(&self) -> u32 {
		**self
	}
}

#[derive(Serialize, Deserialize, Clone, Copy, Debug, PartialEq, Eq)]
pub enum Ctor {
	New,
	/// from_parts(buf, start): the model is the rotation of buf starting at `start`
	FromParts,
	FromVec,
	FromBox,
	Empty,
	Default,
}

#[derive(Serialize, Deserialize, Clone, Debug)]
pub struct WCase {
	pub cap: u32,
	pub ctor: Ctor,
	pub start: u32,
	pub pushes: u32,
	pub boxed: bool,
	/// check every iterator split at every state (O(N^2) per state)
	pub splits: bool,
}

/// exported oldest-index of a window, through its serialized form
fn exported_index<T: Label>(w: &Window<T>) -> Result<u64, engine::Failure> {
	let v = serde_json::to_value(w).map_err(|e| engine::Failure::new("C01:serialize", e.to_string()))?;
	v["index"].as_u64().ok_or_else(|| engine::Failure::new("C01:serialize", "no index field"))
}

pub fn build<T: Label>(c: &WCase, next_label: &mut u32) -> Result<(Window<T>, VecDeque<u32>), engine::Failure> {
	let n = c.cap as usize;
	let mut fresh = |k: usize| -> Vec<u32> {
		let v: Vec<u32> = (0..k as u32).map(|i| *next_label + i).collect();
		*next_label += k as u32;
		v
	};
	match c.ctor {
		Ctor::New => {
			let l = fresh(1)[0];
			let w = Window::new(c.cap as PeriodType, T::mk(l));
			Ok((w, std::iter::repeat(l).take(n).collect()))
		}
		Ctor::Empty => Ok((Window::empty(), VecDeque::new())),
		Ctor::Default => Ok((Window::default(), VecDeque::new())),
		Ctor::FromVec => {
			let l = fresh(n);
			let w: Window<T> = Window::from(l.iter().map(|&x| T::mk(x)).collect::<Vec<T>>());
			Ok((w, l.into_iter().collect()))
		}
		Ctor::FromBox => {
			let l = fresh(n);
			let b: Box<[T]> = l.iter().map(|&x| T::mk(x)).collect::<Vec<T>>().into_boxed_slice();
			let w: Window<T> = Window::from(b);
			Ok((w, l.into_iter().collect()))
		}
		Ctor::FromParts => {
			let l = fresh(n);
			let b: Box<[T]> = l.iter().map(|&x| T::mk(x)).collect::<Vec<T>>().into_boxed_slice();
			let w: Window<T> = Window::from_parts(b, c.start as PeriodType);
			let s = c.start as usize;
			let m: VecDeque<u32> = l[s..].iter().chain(l[..s].iter()).copied().collect();
			Ok((w, m))
		}
	}
}

/// all observers except iterator splits
pub fn observe_light<T: Label>(w: &Window<T>, m: &VecDeque<u32>, st: &mut Stats) -> CaseResult {
	let n = m.len();
	ensure!(w.len() as usize == n, "C01:len", "len() = {} but capacity {}", w.len(), n);
	ensure!(w.is_empty() == (n == 0), "C01:is_empty", "is_empty() = {} for capacity {}", w.is_empty(), n);
	if n > 0 {
		ensure!(w.newest().id() == m[n - 1], "C01:newest", "newest() = {} expected {}", w.newest().id(), m[n - 1]);
		ensure!(w.oldest().id() == m[0], "C01:oldest", "oldest() = {} expected {}", w.oldest().id(), m[0]);
	} else if !cfg!(feature = "unsafe_performance") {
		// an empty window never yields an element: must panic (unsafe build: not callable safely)
		let r = engine::catch(|| w.newest().id());
		ensure!(r.is_err(), "C01:empty-newest", "newest() on an empty window returned {:?}", r.ok());
		let r = engine::catch(|| w.oldest().id());
		ensure!(r.is_err(), "C01:empty-oldest", "oldest() on an empty window returned {:?}", r.ok());
	}
	// get / Index for every index 0..=n+1 and MAX
	let mut idxs: Vec<u64> = (0..=(n as u64 + 1)).collect();
	idxs.push(PeriodType::MAX as u64);
	idxs.push(PeriodType::MAX as u64 - 1);
	for i in idxs {
		if i > PeriodType::MAX as u64 {
			continue;
		}
		let pi = i as PeriodType;
		let got = w.get(pi).map(Label::id);
		let exp = if (i as usize) < n { Some(m[n - 1 - i as usize]) } else { None };
		ensure!(got == exp, "C01:get", "get({}) = {:?} expected {:?} (cap {})", i, got, exp, n);
		if (i as usize) < n {
			let got = w[pi].id();
			ensure!(Some(got) == exp, "C01:index", "w[{}] = {} expected {:?} (cap {})", i, got, exp, n);
		} else if !cfg!(feature = "unsafe_performance") {
			// (calls on which the default build panics are outside the claim of the unsafe build: not probed there)
			let r = engine::catch(|| w[pi].id());
			ensure!(r.is_err(), "C01:index-oob", "w[{}] returned {:?} for capacity {}", i, r.ok(), n);
		}
	}
	// as_slice: rotation described by the exported index
	let sl = w.as_slice();
	ensure!(sl.len() == n, "C01:as_slice-len", "as_slice().len() = {} expected {}", sl.len(), n);
	ensure!(w.as_ref().len() == n, "C01:as_ref-len", "as_ref().len() = {} expected {}", w.as_ref().len(), n);
	let idx = exported_index(w)? as usize;
	if n > 0 {
		ensure!(idx < n, "C01:exported-index", "exported index {} out of 0..{}", idx, n);
		for k in 0..n {
			let got = sl[(idx + k) % n].id();
			ensure!(got == m[k], "C01:as_slice-rotation", "buf[(index+{})%n] = {} expected {}", k, got, m[k]);
		}
	}
	// full iterations
	let it: Vec<u32> = w.iter().map(Label::id).collect();
	ensure!(it.iter().eq(m.iter().rev()), "C01:iter", "iter() = {:?} expected reverse of {:?}", it, m);
	let it: Vec<u32> = w.iter_rev().map(Label::id).collect();
	ensure!(it.iter().eq(m.iter()), "C01:iter_rev", "iter_rev() = {:?} expected {:?}", it, m);
	let it: Vec<u32> = (&*w).into_iter().map(Label::id).collect();
	ensure!(it.iter().eq(m.iter().rev()), "C01:into_iter", "into_iter() = {:?} expected reverse of {:?}", it, m);
	st.count("light_observations", 1);
	Ok(())
}

/// every split of both iterators: advance k, then size_hint/len/count/last/remainder
pub fn observe_splits<T: Label>(w: &Window<T>, m: &VecDeque<u32>, st: &mut Stats, splits: &[usize]) -> CaseResult {
	let n = m.len();
	let fwd: Vec<u32> = m.iter().rev().copied().collect(); // newest first
	let bwd: Vec<u32> = m.iter().copied().collect();
	for &k in splits {
		let rem = n.saturating_sub(k);
		for dir in 0..2 {
			let exp: &[u32] = if dir == 0 { &fwd } else { &bwd };
			let dname = if dir == 0 { "iter" } else { "iter_rev" };
			macro_rules! advanced {
				() => {{
					// (a boxed trait object keeps the two iterator types apart)
					let mut it: Box<dyn ExactSizeIterator<Item = &T>> =
						if dir == 0 { Box::new(w.iter()) } else { Box::new(w.iter_rev()) };
					for j in 0..k {
						let got = it.next().map(Label::id);
						let e = exp.get(j).copied();
						ensure!(got == e, &format!("C01:{dname}-next"), "{}: element #{} = {:?} expected {:?} (cap {})", dname, j, got, e, n);
					}
					it
				}};
			}
			let it = advanced!();
			ensure!(it.size_hint() == (rem, Some(rem)), &format!("C01:{dname}-size_hint"), "{} after {} of {}: size_hint {:?}", dname, k, n, it.size_hint());
			ensure!(it.len() == rem, &format!("C01:{dname}-len"), "{} after {} of {}: len {}", dname, k, n, it.len());
			let rest: Vec<u32> = it.map(Label::id).collect();
			let exp_rest: &[u32] = if k < n { &exp[k..] } else { &[] };
			ensure!(rest == exp_rest, &format!("C01:{dname}-remainder"), "{} after {} of {}: remainder {:?} expected {:?}", dname, k, n, rest, exp_rest);
			// count / last need the concrete types (their overrides are the code under test)
			if dir == 0 {
				let mut it = w.iter();
				for _ in 0..k {
					it.next();
				}
				let c = it.count();
				ensure!(c == rem, "C01:iter-count", "iter after {} of {}: count {}", k, n, c);
				let mut it = w.iter();
				for _ in 0..k {
					it.next();
				}
				let l = it.last().map(Label::id);
				let e = exp_rest.last().copied();
				ensure!(l == e, "C01:iter-last", "iter after {} of {}: last() = {:?} expected {:?}", k, n, l, e);
				let mut it = w.iter();
				for _ in 0..k.max(n) {
					it.next();
				}
				ensure!(it.next().is_none() && it.next().is_none(), "C01:iter-fused", "iter yields after exhaustion (cap {})", n);
			} else {
				let mut it = w.iter_rev();
				for _ in 0..k {
					it.next();
				}
				let c = it.count();
				ensure!(c == rem, "C01:iter_rev-count", "iter_rev after {} of {}: count {}", k, n, c);
				let mut it = w.iter_rev();
				for _ in 0..k {
					it.next();
				}
				let l = it.last().map(Label::id);
				let e = exp_rest.last().copied();
				ensure!(l == e, "C01:iter_rev-last", "iter_rev after {} of {}: last() = {:?} expected {:?}", k, n, l, e);
				let mut it = w.iter_rev();
				for _ in 0..k.max(n) {
					it.next();
				}
				ensure!(it.next().is_none() && it.next().is_none(), "C01:iter_rev-fused", "iter_rev yields after exhaustion (cap {})", n);
			}
			if dir == 0 {
				observe_adaptors(&|| w.iter(), exp, k, dname, st)?;
				observe_adaptors(&|| w.into_iter(), exp, k, "into_iter", st)?;
			} else {
				observe_adaptors(&|| w.iter_rev(), exp, k, dname, st)?;
			}
		}
		st.count("split_observations", 1);
	}
	Ok(())
}

/// Everything `Iterator` provides on top of `next` (nth, skip, step_by, take, fold, find, position, ...) must
/// answer as the same adaptor over the expected sequence does: an override of any of them is code under test.
/// `mk` builds a fresh iterator; it is advanced by `k` plain `next()` calls first.
fn observe_adaptors<'a, T: Label, I: ExactSizeIterator<Item = &'a T>>(
	mk: &dyn Fn() -> I,
	exp: &[u32],
	k: usize,
	dname: &str,
	st: &mut Stats,
) -> CaseResult {
	let n = exp.len();
	let rem = n.saturating_sub(k);
	let tail: &[u32] = if k < n { &exp[k..] } else { &[] };
	let adv = || {
		let mut it = mk();
		for _ in 0..k {
			it.next();
		}
		it
	};
	let js = [
		0usize,
		1,
		2,
		rem.saturating_sub(1),
		rem,
		rem + 1,
		rem / 2,
		254,
		255,
		256,
		257,
		256 + rem / 2,
		256 + rem.saturating_sub(1),
		256 + rem,
		511,
		512,
		513,
		512 + rem.saturating_sub(1),
		65535,
		65536,
		65537,
		65536 + rem.saturating_sub(1),
		1 << 32,
		(1 << 32) + 1,
		(1 << 32) + rem.saturating_sub(1),
		usize::MAX - 1,
		usize::MAX,
	];
	for &j in &js {
		let mut it = adv();
		let got = it.nth(j).map(Label::id);
		let e = tail.get(j).copied();
		ensure!(got == e, &format!("C01:{dname}-nth"), "{} after {} of {}: nth({}) = {:?} expected {:?}", dname, k, n, j, got, e);
		let left = it.len();
		let rest: Vec<u32> = it.map(Label::id).collect();
		let exp_rest: &[u32] = if j < rem { &tail[j + 1..] } else { &[] };
		ensure!(
			rest == exp_rest && left == exp_rest.len(),
			&format!("C01:{dname}-nth-remainder"),
			"{} after {} of {}: after nth({}) len() = {} and the remainder is {:?}, expected {:?}",
			dname,
			k,
			n,
			j,
			left,
			rest,
			exp_rest
		);
		let got: Vec<u32> = adv().skip(j).map(Label::id).collect();
		let e: Vec<u32> = tail.iter().copied().skip(j).collect();
		ensure!(got == e, &format!("C01:{dname}-skip"), "{} after {} of {}: skip({}) yields {:?} expected {:?}", dname, k, n, j, got, e);
		let got: Vec<u32> = adv().take(j).map(Label::id).collect();
		let e: Vec<u32> = tail.iter().copied().take(j).collect();
		ensure!(got == e, &format!("C01:{dname}-take"), "{} after {} of {}: take({}) yields {:?} expected {:?}", dname, k, n, j, got, e);
		if j > 0 {
			let got: Vec<u32> = adv().step_by(j).map(Label::id).collect();
			let e: Vec<u32> = tail.iter().copied().step_by(j).collect();
			ensure!(got == e, &format!("C01:{dname}-step_by"), "{} after {} of {}: step_by({}) yields {:?} expected {:?}", dname, k, n, j, got, e);
		}
		st.count("adaptor_observations", 4);
	}
	// internal iteration: fold / for_each / try_fold based consumers
	let h = |acc: u64, x: u32| acc.wrapping_mul(0x100000001b3).wrapping_add(u64::from(x) + 1);
	let got = adv().fold(7u64, |a, x| h(a, x.id()));
	let e = tail.iter().fold(7u64, |a, &x| h(a, x));
	ensure!(got == e, &format!("C01:{dname}-fold"), "{} after {} of {}: fold visits a different sequence than {:?}", dname, k, n, tail);
	let mut seen = Vec::with_capacity(rem);
	adv().for_each(|x| seen.push(x.id()));
	ensure!(seen == tail, &format!("C01:{dname}-for_each"), "{} after {} of {}: for_each visits {:?} expected {:?}", dname, k, n, seen, tail);
	let probes = [tail.first().copied(), tail.get(rem / 2).copied(), tail.last().copied(), Some(u32::MAX)];
	for p in probes.iter().flatten() {
		let got = adv().position(|x| x.id() == *p);
		let e = tail.iter().position(|x| x == p);
		ensure!(got == e, &format!("C01:{dname}-position"), "{} after {} of {}: position of {} = {:?} expected {:?}", dname, k, n, p, got, e);
		let mut it = adv();
		let got = it.find(|x| x.id() == *p).map(Label::id);
		let e = tail.iter().copied().find(|x| x == p);
		let rest: Vec<u32> = it.map(Label::id).collect();
		let exp_rest: Vec<u32> = tail.iter().copied().skip_while(|x| x != p).skip(1).collect();
		ensure!(
			got == e && rest == exp_rest,
			&format!("C01:{dname}-find"),
			"{} after {} of {}: find({}) = {:?} then {:?}, expected {:?} then {:?}",
			dname,
			k,
			n,
			p,
			got,
			rest,
			e,
			exp_rest
		);
		ensure!(
			adv().any(|x| x.id() == *p) == tail.contains(p) && adv().all(|x| x.id() != *p) != tail.contains(p),
			&format!("C01:{dname}-any-all"),
			"{} after {} of {}: any/all disagree about {} in {:?}",
			dname,
			k,
			n,
			p,
			tail
		);
	}
	let got = (adv().map(Label::id).min(), adv().map(Label::id).max(), adv().min_by_key(|x| x.id()).map(Label::id), adv().max_by_key(|x| x.id()).map(Label::id));
	let e = (tail.iter().copied().min(), tail.iter().copied().max(), tail.iter().copied().min(), tail.iter().copied().max());
	ensure!(got == e, &format!("C01:{dname}-min-max"), "{} after {} of {}: min/max {:?} expected {:?}", dname, k, n, got, e);
	let got: Vec<(usize, u32)> = adv().enumerate().map(|(i, x)| (i, x.id())).collect();
	ensure!(
		got.iter().enumerate().all(|(i, &(gi, gx))| gi == i && tail.get(i) == Some(&gx)) && got.len() == rem,
		&format!("C01:{dname}-enumerate"),
		"{} after {} of {}: enumerate yields {:?} over {:?}",
		dname,
		k,
		n,
		got,
		tail
	);
	let got: Vec<u32> = adv().zip(adv().skip(1)).map(|(a, b)| a.id() ^ b.id().rotate_left(16)).collect();
	let e: Vec<u32> = tail.iter().zip(tail.iter().skip(1)).map(|(a, b)| a ^ b.rotate_left(16)).collect();
	ensure!(got == e, &format!("C01:{dname}-zip"), "{} after {} of {}: zip with its own skip(1) differs", dname, k, n);
	let mut pk = adv().peekable();
	let first = pk.peek().map(|x| x.id());
	let all: Vec<u32> = pk.map(Label::id).collect();
	ensure!(first == tail.first().copied() && all == tail, &format!("C01:{dname}-peekable"), "{} after {} of {}: peekable yields {:?} expected {:?}", dname, k, n, all, tail);
	st.count("adaptor_observations", 12);
	Ok(())
}

/// Clone, serde round trip and from_parts(exported) must represent the same sequence
pub fn observe_rebuilds<T: Label>(w: &Window<T>, m: &VecDeque<u32>, st: &mut Stats) -> CaseResult {
	let n = m.len();
	let c = w.clone();
	observe_light(&c, m, st)?;
	let text = serde_json::to_string(w).map_err(|e| engine::Failure::new("C01:serialize", e.to_string()))?;
	match serde_json::from_str::<Window<T>>(&text) {
		Ok(r) => {
			let it: Vec<u32> = r.iter_rev().map(Label::id).collect();
			ensure!(it.iter().eq(m.iter()), "C01:serde-sequence", "deserialized window reads {:?} expected {:?}", it, m);
			ensure!(r.len() as usize == n, "C01:serde-len", "deserialized len {} expected {}", r.len(), n);
		}
		Err(e) => {
			if n == 0 {
				fail!("C01:serde-empty-rejected", "serialized empty window {} is rejected: {}", text, e);
			}
			fail!("C01:serde-rejected", "serialized window {} is rejected: {}", text, e);
		}
	}
	if n > 0 {
		let idx = exported_index(w)?;
		let buf: Box<[T]> = w.as_slice().to_vec().into_boxed_slice();
		let r = Window::from_parts(buf, idx as PeriodType);
		let it: Vec<u32> = r.iter_rev().map(Label::id).collect();
		ensure!(it.iter().eq(m.iter()), "C01:from_parts-sequence", "from_parts(exported) reads {:?} expected {:?}", it, m);
	}
	st.count("rebuild_observations", 1);
	Ok(())
}

fn all_splits(n: usize) -> Vec<usize> {
	(0..=n + 1).collect()
}

pub fn run_case<T: Label>(c: &WCase, st: &mut Stats) -> CaseResult {
	let mut label = 1u32;
	let (mut w, mut m) = build::<T>(c, &mut label)?;
	let n = m.len();
	let splits = all_splits(n);
	for step in 0..=c.pushes {
		observe_light(&w, &m, st)?;
		if c.splits {
			observe_splits(&w, &m, st, &splits)?;
		}
		if c.splits || step % 7 == 0 || step + 2 >= c.pushes {
			observe_rebuilds(&w, &m, st)?;
		}
		// distinct (capacity, phase, ctor) state with a rotated ring
		if n > 1 && step as usize % n != 0 {
			st.nontrivial(engine::mix(
				engine::mix(n as u64, (step as usize % n) as u64),
				engine::mix(c.ctor as u64 + 1, (c.start as u64) << 2 | (c.boxed as u64) << 1 | c.splits as u64),
			));
		}
		if step == c.pushes {
			break;
		}
		if n == 0 {
			if !cfg!(feature = "unsafe_performance") {
				let r = engine::catch(|| {
					let mut w2 = w.clone();
					w2.push(T::mk(label)).id()
				});
				ensure!(r.is_err(), "C01:empty-push", "push into an empty window returned {:?}", r.ok());
			}
			break;
		}
		let l = label;
		label += 1;
		let out = w.push(T::mk(l)).id();
		let exp = m.pop_front().unwrap();
		m.push_back(l);
		ensure!(out == exp, "C01:push-return", "push #{} returned {} expected {} (cap {})", step, out, exp, n);
	}
	st.class(&format!("{:?}", c.ctor));
	st.sample(&format!("{:?}/{}", c.ctor, if c.boxed { "Box<u32>" } else { "u32" }), || serde_json::to_value(c).unwrap());
	Ok(())
}

fn case_dispatch(c: &WCase, st: &mut Stats) -> CaseResult {
	if c.boxed {
		run_case::<Box<u32>>(c, st)
	} else {
		run_case::<u32>(c, st)
	}
}

fn caps(tier: Tier) -> Vec<u32> {
	let max = (PeriodType::MAX as u64 - 1).min(254) as u32;
	match tier {
		Tier::Thorough => (0..=max).collect(),
		Tier::Quick => {
			let mut v: Vec<u32> = (0..=16).collect();
			v.extend([31, 32, 33, 63, 64, 65, 127, 128, 129, 200, 253, 254]);
			v.retain(|&c| c <= max);
			v
		}
	}
}

fn enum_cases(tier: Tier, part: u32, parts: u32) -> Box<dyn Iterator<Item = WCase>> {
	let mut out = Vec::new();
	for (k, cap) in caps(tier).into_iter().enumerate() {
		// interleave so that partitions have similar cost
		if k as u32 % parts != part {
			continue;
		}
		let full = tier == Tier::Thorough || cap <= 65;
		for boxed in [false, true] {
			if cap == 0 {
				for ctor in [Ctor::New, Ctor::Empty, Ctor::Default, Ctor::FromVec, Ctor::FromBox] {
					// from an empty Vec / Box: from_parts asserts len > index, i.e. panics -> handled in ctor check
					if matches!(ctor, Ctor::FromVec | Ctor::FromBox) {
						continue;
					}
					out.push(WCase { cap, ctor, start: 0, pushes: 1, boxed, splits: true });
				}
				continue;
			}
			out.push(WCase { cap, ctor: Ctor::New, start: 0, pushes: 2 * cap + 3, boxed, splits: full && !boxed });
			if !full || boxed {
				// lighter pass still sees every phase
				out.push(WCase { cap, ctor: Ctor::New, start: 0, pushes: 2 * cap + 3, boxed, splits: false });
			}
			out.push(WCase { cap, ctor: Ctor::FromVec, start: 0, pushes: cap + 2, boxed, splits: false });
			out.push(WCase { cap, ctor: Ctor::FromBox, start: 0, pushes: cap + 2, boxed, splits: false });
			for start in 0..cap {
				let quick_skip = tier == Tier::Quick && cap > 33 && !(start < 3 || start + 3 >= cap || start % 17 == 0);
				if quick_skip {
					continue;
				}
				out.push(WCase { cap, ctor: Ctor::FromParts, start, pushes: if cap <= 16 { cap + 2 } else { 2 }, boxed, splits: cap <= 16 && !boxed });
			}
		}
	}
	Box::new(out.into_iter())
}

// ---------------------------------------------------------------------------------------
// random histories

#[derive(Serialize, Deserialize, Clone, Debug)]
pub enum Op {
	Push,
	Observe,
	Splits(u16),
	/// continue with a clone; the original is kept and must stay as it was
	CloneSwap,
	/// rebuild through from_parts(export)
	Rebuild,
	/// rebuild through serde
	Serde,
	/// continue with a window of another capacity (given) that was overwritten by `clone_from`
	CloneFrom(u8),
}

#[derive(Serialize, Deserialize, Clone, Debug)]
pub struct HCase {
	pub cap: u32,
	pub boxed: bool,
	pub ops: Vec<Op>,
}

pub fn run_history<T: Label>(c: &HCase, st: &mut Stats) -> CaseResult {
	let mut label = 1u32;
	let wc = WCase { cap: c.cap, ctor: Ctor::New, start: 0, pushes: 0, boxed: c.boxed, splits: false };
	let (mut w, mut m) = build::<T>(&wc, &mut label)?;
	let n = m.len();
	let mut kept: Vec<(Window<T>, VecDeque<u32>)> = Vec::new();
	let mut pushes = 0usize;
	let mut rotated_observed = false;
	for op in &c.ops {
		match op {
			Op::Push => {
				if n == 0 {
					continue;
				}
				let l = label;
				label += 1;
				let out = w.push(T::mk(l)).id();
				let exp = m.pop_front().unwrap();
				m.push_back(l);
				pushes += 1;
				ensure!(out == exp, "C01:push-return", "push returned {} expected {} (cap {})", out, exp, n);
			}
			Op::Observe => {
				observe_light(&w, &m, st)?;
				rotated_observed |= n > 1 && pushes % n != 0;
			}
			Op::Splits(k) => {
				let k = (*k as usize * (n + 2)) >> 16;
				observe_splits(&w, &m, st, &[k])?;
				rotated_observed |= n > 1 && pushes % n != 0;
			}
			Op::CloneSwap => {
				let c2 = w.clone();
				kept.push((std::mem::replace(&mut w, c2), m.clone()));
			}
			Op::Rebuild => {
				if n > 0 {
					let idx = exported_index(&w)?;
					let buf: Box<[T]> = w.as_slice().to_vec().into_boxed_slice();
					w = Window::from_parts(buf, idx as PeriodType);
				}
			}
			Op::CloneFrom(other) => {
				// Clone::clone_from into a window of another capacity (also empty) that has its own history
				let oc = (*other as usize) % 12;
				let mut dst: Window<T> = if oc == 0 { Window::empty() } else { Window::new(oc as PeriodType, T::mk(900_000)) };
				for j in 0..(*other as usize / 12) % 5 {
					if oc > 0 {
						dst.push(T::mk(900_001 + j as u32));
					}
				}
				dst.clone_from(&w);
				w = dst;
			}
			Op::Serde => {
				if n > 0 {
					let text = serde_json::to_string(&w).map_err(|e| engine::Failure::new("C01:serialize", e.to_string()))?;
					w = serde_json::from_str(&text).map_err(|e| engine::Failure::new("C01:serde-rejected", format!("{text}: {e}")))?;
				}
			}
		}
	}
	observe_light(&w, &m, st)?;
	for (kw, km) in &kept {
		observe_light(kw, km, st)?;
	}
	if rotated_observed {
		st.nontrivial(engine::fnv(format!("{:?}", c).as_bytes()));
	}
	st.class(if c.boxed { "Box<u32>" } else { "u32" });
	st.sample(if c.boxed { "history/Box<u32>" } else { "history/u32" }, || serde_json::to_value(c).unwrap());
	Ok(())
}

/// The observations of a history as a hash (no model): used to compare builds (C19/C20)
pub fn trace_history<T: Label>(c: &HCase) -> (u64, u64) {
	let mut h = (0x51u64, 0x73u64);
	let mut add = |v: u64| {
		h.0 = engine::mix(h.0, v);
		h.1 = engine::mix(h.1 ^ 0xabcdef, v.rotate_left(17));
	};
	let mut label = 1u32;
	let n = c.cap as usize;
	let mut w: Window<T> = if n == 0 { Window::empty() } else { Window::new(c.cap as PeriodType, T::mk(label)) };
	label += 1;
	let mut kept: Vec<Window<T>> = Vec::new();
	let observe = |w: &Window<T>, add: &mut dyn FnMut(u64)| {
		add(w.len() as u64);
		add(w.is_empty() as u64);
		if !w.is_empty() {
			add(w.newest().id() as u64);
			add(w.oldest().id() as u64);
		}
		for i in 0..=(w.len() as u64 + 1) {
			add(w.get(i as PeriodType).map_or(u64::MAX, |x| x.id() as u64));
		}
		// Index has its own code path (and its own branch under unsafe_performance); in range only, it panics outside
		for i in 0..w.len() {
			add(w[i].id() as u64 ^ 0x2000);
		}
		for x in w.iter() {
			add(x.id() as u64);
		}
		for x in w.iter_rev() {
			add(x.id() as u64 ^ 0x8000);
		}
		for x in w.as_slice() {
			add(x.id() as u64 ^ 0x4000);
		}
	};
	for op in &c.ops {
		match op {
			Op::Push => {
				if n > 0 {
					add(w.push(T::mk(label)).id() as u64);
					label += 1;
				}
			}
			Op::Observe => observe(&w, &mut add),
			Op::Splits(k) => {
				let k = (*k as usize * (n + 2)) >> 16;
				let mut it = w.iter();
				for _ in 0..k {
					add(it.next().map_or(u64::MAX, |x| x.id() as u64));
				}
				add(it.size_hint().0 as u64);
				add(it.len() as u64);
				add(it.last().map_or(u64::MAX, |x| x.id() as u64));
				let mut it = w.iter_rev();
				for _ in 0..k {
					add(it.next().map_or(u64::MAX, |x| x.id() as u64));
				}
				add(it.len() as u64);
				add(it.count() as u64);
				// positional and internal-iteration adaptors (an override of any of them is code under test as well)
				for j in [0usize, 1, n / 2, n.saturating_sub(1), n, 255, 256, 257, 256 + n / 2, 65536, usize::MAX] {
					let mut it = w.iter();
					for _ in 0..k.min(3) {
						it.next();
					}
					add(it.nth(j).map_or(u64::MAX, |x| x.id() as u64));
					add(it.len() as u64);
					let mut it = w.iter_rev();
					add(it.nth(j).map_or(u64::MAX, |x| x.id() as u64));
					add(it.len() as u64);
					add(w.iter().skip(j).fold(3u64, |a, x| engine::mix(a, x.id() as u64)));
					add(w.iter_rev().skip(j).fold(5u64, |a, x| engine::mix(a, x.id() as u64)));
					if j > 0 {
						add(w.iter().step_by(j).fold(7u64, |a, x| engine::mix(a, x.id() as u64)));
						add(w.iter_rev().step_by(j).fold(9u64, |a, x| engine::mix(a, x.id() as u64)));
					}
				}
			}
			Op::CloneSwap => {
				let c2 = w.clone();
				kept.push(std::mem::replace(&mut w, c2));
			}
			Op::CloneFrom(other) => {
				let oc = (*other as usize) % 12;
				let mut dst: Window<T> = if oc == 0 { Window::empty() } else { Window::new(oc as PeriodType, T::mk(900_000)) };
				for j in 0..(*other as usize / 12) % 5 {
					if oc > 0 {
						dst.push(T::mk(900_001 + j as u32));
					}
				}
				dst.clone_from(&w);
				w = dst;
			}
			Op::Rebuild => {
				if n > 0 {
					if let Ok(idx) = exported_index(&w) {
						let buf: Box<[T]> = w.as_slice().to_vec().into_boxed_slice();
						w = Window::from_parts(buf, idx as PeriodType);
					}
				}
			}
			Op::Serde => {
				if let Ok(text) = serde_json::to_string(&w) {
					add(engine::fnv(text.as_bytes()));
					if let Ok(r) = serde_json::from_str::<Window<T>>(&text) {
						w = r;
					}
				}
			}
		}
	}
	observe(&w, &mut add);
	for k in &kept {
		observe(k, &mut add);
	}
	h
}

pub fn history_strategy_pub() -> impl Strategy<Value = HCase> {
	history_strategy()
}

fn history_strategy() -> impl Strategy<Value = HCase> {
	let max = (PeriodType::MAX as u64 - 1).min(254) as u32;
	let cap = prop_oneof![3 => 0u32..=8, 2 => 9u32..=40, 1 => 41u32..=max, 1 => Just(max)];
	let op = prop_oneof![
		10 => Just(Op::Push),
		3 => Just(Op::Observe),
		3 => any::<u16>().prop_map(Op::Splits),
		1 => Just(Op::CloneSwap),
		1 => any::<u8>().prop_map(Op::CloneFrom),
		1 => Just(Op::Rebuild),
		1 => Just(Op::Serde),
	];
	(cap, any::<bool>(), proptest::collection::vec(op, 0..120)).prop_map(|(cap, boxed, ops)| HCase { cap, boxed, ops })
}

pub fn def(tier: Tier) -> PropertyDef {
	let parts = 16u32;
	let mut checks: Vec<Box<dyn SubCheck>> = Vec::new();
	for part in 0..parts {
		checks.push(enumerate(
			&format!("enumerate_{part:02}"),
			move |tier, _seed| enum_cases(tier, part, parts),
			case_dispatch,
		));
	}
	checks.push(pt("histories", tier.pick(20000, 100000), history_strategy(), |c: &HCase, st| {
		if c.boxed {
			run_history::<Box<u32>>(c, st)
		} else {
			run_history::<u32>(c, st)
		}
	}));
	checks.extend(crate::fuzz_entry::corpus_checks("C01"));
	PropertyDef {
		id: "C01",
		level: "exploration",
		rule: "Exhaustive enumeration over (capacity, constructor, start index, push count 0..=2N+3) with every observer read after every push (every iterator split 0..=N+1 where `splits` is set), plus proptest-generated push/observe/clone/rebuild/serde histories; oracle = VecDeque of distinct labels. Non-trivial & distinct = a (capacity, ring phase != 0, constructor, start, element type, split mode) state that was observed, or a distinct random history with an observation at a rotated ring.",
		assumptions: vec![
			"distinct u32 labels stand for all element values (Window is parametric in T)".into(),
			"the exported oldest-index is read from the serde form (the only public export)".into(),
			"capacities 0..=254 (all capacities of the default PeriodType); thorough tier enumerates all of them with every split".into(),
		],
		exhaustive: tier == Tier::Thorough,
		checks,
	}
}
