//! The rounding allowance of DESIGN.md §4.2 and value±error arithmetic (§4.3).

use yata::core::ValueType;

/// DESIGN.md §4.2
pub const K: f64 = 256.0;

#[inline]
pub fn eps() -> f64 {
	ValueType::EPSILON as f64
}

/// A(t) = K·ε·(n+t)·M·g
#[inline]
pub fn allow(n: usize, t: usize, m: f64, g: f64) -> f64 {
	K * eps() * (n + t) as f64 * m * g
}

/// quotient rule: q = a/b with |δa| <= ea, |δb| <= eb. None = ill-conditioned (|b| <= 2 eb)
pub fn quot_allow(a: f64, b: f64, ea: f64, eb: f64) -> Option<f64> {
	if !(b.abs() > 2.0 * eb) {
		return None;
	}
	let q = a / b;
	Some((ea + q.abs() * eb) / (b.abs() - eb) + 4.0 * eps() * q.abs())
}

/// running maximum of magnitudes
#[derive(Clone, Copy, Debug)]
pub struct Mag(pub f64);
impl Mag {
	pub fn new(init: f64) -> Self {
		Mag(init.abs())
	}
	pub fn add(&mut self, x: f64) -> f64 {
		if x.abs() > self.0 {
			self.0 = x.abs();
		}
		self.0
	}
}
