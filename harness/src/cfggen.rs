//! Valid-by-construction indicator configurations, built as JSON from a vector of generated
//! words (so that proptest shrinks the words).

use proptest::prelude::*;
use serde::{Deserialize, Serialize};
use serde_json::{json, Value};

pub const MA_JSON: [&str; 15] = ["sma", "wma", "hma", "rma", "ema", "dma", "dema", "tma", "tema", "wsma", "smm", "swma", "trima", "lin_reg", "vidya"];
/// kinds whose weights are non-negative (cannot overshoot)
pub const MA_NONNEG: [usize; 11] = [0, 1, 3, 4, 5, 7, 9, 10, 11, 12, 14];
pub const SRC_JSON: [&str; 8] = ["close", "open", "high", "low", "hl2", "tp", "volume", "volumed_price"];

pub fn ma_min(kind: usize) -> u64 {
	match MA_JSON[kind] {
		"hma" | "lin_reg" => 2,
		_ => 1,
	}
}
pub fn ma_max(kind: usize) -> u64 {
	match MA_JSON[kind] {
		"wsma" => 127,
		_ => 254,
	}
}

#[derive(Serialize, Deserialize, Clone, Debug)]
pub struct CfgCase {
	pub name: String,
	pub cfg: Value,
}

pub struct Chooser<'a> {
	w: &'a [u16],
	i: usize,
	/// 0 = small periods preferred, 1 = any
	pub wide: bool,
	/// restrict sources to price fields
	pub price_sources: bool,
	/// restrict MA kinds to those with non-negative weights
	pub nonneg_ma: bool,
}

impl<'a> Chooser<'a> {
	pub fn new(w: &'a [u16]) -> Self {
		Self { w, i: 0, wide: false, price_sources: true, nonneg_ma: false }
	}
	fn word(&mut self) -> u64 {
		let v = if self.w.is_empty() { 0 } else { self.w[self.i % self.w.len()] as u64 + (self.i / self.w.len()) as u64 * 7919 };
		self.i += 1;
		v & 0xffff
	}
	/// period in lo..=hi with boundary weight
	pub fn period(&mut self, lo: u64, hi: u64) -> u64 {
		let hi = hi.max(lo);
		let w = self.word();
		let span = hi - lo + 1;
		match w % 16 {
			0 => lo,
			1 => (lo + 1).min(hi),
			2 => hi,
			3 => hi.saturating_sub(1).max(lo),
			// anywhere in the span (also when small periods are preferred: a defect confined to mid-range periods,
			// e.g. a cast that breaks from 128 on, must stay reachable)
			4 => lo + (w / 16) % span,
			5 if self.wide => lo + (w / 16) % span,
			_ => lo + (w / 16) % span.min(if self.wide { 60 } else { 24 }),
		}
	}
	pub fn float(&mut self, lo: f64, hi: f64) -> f64 {
		let w = self.word();
		match w % 8 {
			0 => lo,
			1 => hi,
			_ => lo + (hi - lo) * ((w / 8) as f64 / 8192.0),
		}
	}
	/// open on the lower side: (lo, hi]
	pub fn float_pos(&mut self, lo: f64, hi: f64) -> f64 {
		let v = self.float(lo, hi);
		if v <= lo {
			lo + (hi - lo) * 1e-3
		} else {
			v
		}
	}
	pub fn kind(&mut self) -> usize {
		let w = self.word() as usize;
		if self.nonneg_ma {
			MA_NONNEG[w % MA_NONNEG.len()]
		} else {
			w % 15
		}
	}
	pub fn ma_of(&mut self, kind: usize, lo: u64, hi: u64) -> (Value, u64) {
		let lo = lo.max(ma_min(kind));
		let hi = hi.min(ma_max(kind)).max(lo);
		let p = self.period(lo, hi);
		(json!({ MA_JSON[kind]: p }), p)
	}
	pub fn ma(&mut self, lo: u64, hi: u64) -> (Value, u64) {
		let k = self.kind();
		self.ma_of(k, lo, hi)
	}
	pub fn source(&mut self) -> Value {
		let w = self.word() as usize;
		json!(SRC_JSON[if self.price_sources { w % 6 } else { w % 8 }])
	}
	pub fn boolean(&mut self) -> bool {
		self.word() % 2 == 0
	}
}

pub const NAMES: [&str; 37] = [
	"Aroon",
	"AverageDirectionalIndex",
	"AwesomeOscillator",
	"BollingerBands",
	"ChaikinMoneyFlow",
	"ChaikinOscillator",
	"ChandeKrollStop",
	"ChandeMomentumOscillator",
	"CommodityChannelIndex",
	"CoppockCurve",
	"DetrendedPriceOscillator",
	"DonchianChannel",
	"EaseOfMovement",
	"EldersForceIndex",
	"Envelopes",
	"FisherTransform",
	"HullMovingAverage",
	"IchimokuCloud",
	"Kaufman",
	"KeltnerChannel",
	"KlingerVolumeOscillator",
	"KnowSureThing",
	"MACD",
	"MomentumIndex",
	"MoneyFlowIndex",
	"ParabolicSAR",
	"PivotReversalStrategy",
	"PriceChannelStrategy",
	"RelativeStrengthIndex",
	"RelativeVigorIndex",
	"SMIErgodicIndicator",
	"StochasticOscillator",
	"Trix",
	"TrendStrengthIndex",
	"TrueStrengthIndex",
	"WoodiesCCI",
	"Example",
];

/// (left, right) with left + right <= 253
fn lr(c: &mut Chooser) -> (u64, u64) {
	let l = c.period(1, 126);
	let r = c.period(1, 253 - l);
	(l, r)
}

/// a configuration that satisfies validate() and whose init succeeds, by construction
pub fn build(name: &str, c: &mut Chooser) -> Value {
	match name {
		"Aroon" => json!({"period": c.period(2, 254), "signal_zone": c.float(0.0, 1.0), "over_zone_period": c.period(1, 254)}),
		"AverageDirectionalIndex" => {
			let (m1, p1) = c.ma(2, 254);
			let (m2, p2) = c.ma(2, 254);
			json!({"method1": m1, "method2": m2, "period1": c.period(1, p1.min(p2) - 1), "zone": c.float(0.0, 1.0)})
		}
		"AwesomeOscillator" => {
			let k = c.kind();
			let (m2, p2) = c.ma_of(k, 2, ma_max(k) - 1);
			let (m1, _) = c.ma_of(k, (p2 + 1).max(3), 254);
			let (l, r) = lr(c);
			json!({"ma1": m1, "ma2": m2, "source": c.source(), "left": l, "right": r, "conseq_peaks": c.period(1, 255)})
		}
		"BollingerBands" => json!({"avg_size": c.period(3, 254), "sigma": c.float_pos(0.0, 4.0), "source": c.source()}),
		"ChaikinMoneyFlow" => json!({"size": c.period(2, 254)}),
		"ChaikinOscillator" => {
			let k = c.kind();
			let (m1, p1) = c.ma_of(k, 1, ma_max(k) - 1);
			let (m2, _) = c.ma_of(k, p1 + 1, 254);
			json!({"ma1": m1, "ma2": m2, "window": c.period(0, 254)})
		}
		"ChandeKrollStop" => json!({"ma": c.ma(1, 254).0, "x": c.float(0.0, 4.0), "q": c.period(1, 254), "source": c.source()}),
		"ChandeMomentumOscillator" => json!({"period": c.period(2, 254), "zone": c.float(0.0, 1.0), "source": c.source()}),
		"CommodityChannelIndex" => json!({"period": c.period(2, 254), "zone": c.float(0.0, 3.0), "source": c.source()}),
		"CoppockCurve" => {
			let p3 = c.period(1, 253);
			let p2 = c.period(p3 + 1, 254);
			let (l, r) = lr(c);
			json!({"ma1": c.ma(2, 254).0, "s3_ma": c.ma(2, 254).0, "period2": p2, "period3": p3, "s2_left": l, "s2_right": r, "source": c.source()})
		}
		"DetrendedPriceOscillator" => json!({"ma": c.ma(2, 254).0, "source": c.source()}),
		"DonchianChannel" => json!({"period": c.period(2, 254)}),
		"EaseOfMovement" => json!({"ma": c.ma(2, 254).0, "period2": c.period(1, 254)}),
		"EldersForceIndex" => json!({"ma": c.ma(2, 254).0, "period2": c.period(1, 254), "source": c.source()}),
		"Envelopes" => {
			// k is only required to be positive: with k >= 1 the lower bound is zero or negative (seed S153)
			let ma = c.ma(2, 254).0;
			let k = if c.word() % 4 == 0 { c.float(1.0, 3.5) } else { c.float_pos(0.0, 0.9) };
			json!({"ma": ma, "k": k, "source": c.source(), "source2": c.source()})
		}
		"FisherTransform" => json!({"period1": c.period(2, 254), "zone": c.float_pos(0.0, 3.0), "signal": c.ma(2, 254).0, "source": c.source()}),
		"HullMovingAverage" => {
			let (l, r) = lr(c);
			json!({"period": c.period(3, 254), "left": l, "right": r, "source": c.source()})
		}
		"IchimokuCloud" => {
			let l1 = c.period(1, 252);
			let l2 = c.period(l1 + 1, 253);
			let l3 = c.period(l2 + 1, 254);
			json!({"l1": l1, "l2": l2, "l3": l3, "m": c.period(1, 254), "source": c.source()})
		}
		"Kaufman" => {
			let p2 = c.period(1, 253);
			let p3 = c.period(p2 + 1, 254);
			json!({"period1": c.period(1, 254), "period2": p2, "period3": p3, "filter_period": c.period(2, 254), "square_smooth": c.boolean(), "k": c.float_pos(0.0, 2.0), "source": c.source()})
		}
		"KeltnerChannel" => json!({"ma": c.ma(2, 254).0, "sigma": c.float_pos(0.0, 4.0), "source": c.source()}),
		"KlingerVolumeOscillator" => {
			let k = c.kind();
			let (m1, p1) = c.ma_of(k, 2, ma_max(k) - 1);
			let (m2, _) = c.ma_of(k, p1 + 1, 254);
			json!({"ma1": m1, "ma2": m2, "signal": c.ma(2, 254).0})
		}
		"KnowSureThing" => {
			let p1 = c.period(1, 251);
			let p2 = c.period(p1 + 1, 252);
			let p3 = c.period(p2 + 1, 253);
			let p4 = c.period(p3 + 1, 254);
			let k = c.kind();
			json!({"period1": p1, "period2": p2, "period3": p3, "period4": p4, "ma1": c.ma_of(k, 1, 254).0, "ma2": c.ma_of(k, 1, 254).0, "ma3": c.ma_of(k, 1, 254).0, "ma4": c.ma_of(k, 1, 254).0, "signal": c.ma(1, 254).0})
		}
		"MACD" => {
			let k1 = c.kind();
			let (m1, p1) = c.ma_of(k1, 2, ma_max(k1).min(253));
			// the second average must be longer: its kind must allow that
			let mut k2 = c.kind();
			if ma_max(k2) <= p1 {
				k2 = 0;
			}
			let (m2, _) = c.ma_of(k2, p1 + 1, 254);
			json!({"ma1": m1, "ma2": m2, "signal": c.ma(2, 254).0, "source": c.source()})
		}
		"MomentumIndex" => {
			let p2 = c.period(1, 253);
			json!({"period1": c.period(p2 + 1, 254), "period2": p2, "source": c.source()})
		}
		"MoneyFlowIndex" => json!({"period": c.period(1, 254), "zone": c.float(0.0, 0.5)}),
		"ParabolicSAR" => {
			let step = c.float_pos(0.0, 0.3);
			json!({"af_step": step, "af_max": step + c.float_pos(0.0, 0.7)})
		}
		"PivotReversalStrategy" => {
			let (l, r) = lr(c);
			json!({"left": l, "right": r})
		}
		"PriceChannelStrategy" => json!({"period": c.period(2, 254), "sigma": c.float_pos(0.0, 1.0)}),
		"RelativeStrengthIndex" => json!({"ma": c.ma(3, 254).0, "zone": c.float_pos(0.0, 0.5), "source": c.source()}),
		"RelativeVigorIndex" => json!({"period1": c.period(2, 254), "period2": c.period(2, 254), "signal": c.ma(2, 254).0, "zone": c.float(0.0, 0.499)}),
		"SMIErgodicIndicator" => {
			let p2 = c.period(2, 254);
			json!({"period1": c.period(p2, 254), "period2": p2, "signal": c.ma(2, 254).0, "zone": c.float(0.0, 1.0), "source": c.source()})
		}
		"StochasticOscillator" => json!({"period": c.period(2, 254), "ma": c.ma(1, 254).0, "signal": c.ma(1, 254).0, "zone": c.float(0.0, 0.5)}),
		"Trix" => json!({"period1": c.period(3, 254), "signal": c.ma(2, 254).0, "source": c.source()}),
		"TrendStrengthIndex" => {
			let p = c.period(2, 254);
			json!({"period": p, "zone": c.float(0.0, 0.999), "reverse_offset": c.period(1, p - 1), "source": c.source()})
		}
		"TrueStrengthIndex" => {
			let p2 = c.period(2, 254);
			json!({"period1": c.period(p2, 254), "period2": p2, "period3": c.period(2, 254), "zone": c.float(0.0, 1.0), "source": c.source()})
		}
		"WoodiesCCI" => {
			let p1 = c.period(1, 253);
			json!({"period1": p1, "period2": c.period(p1 + 1, 254), "s1_lag": c.period(1, 254), "source": c.source()})
		}
		"Example" => json!({"price": c.float_pos(0.0, 10.0), "period": c.period(0, 254), "source": c.source()}),
		_ => Value::Null,
	}
}

/// largest period-like number in a configuration (for stream length / non-triviality rules)
pub fn max_period(v: &Value) -> u64 {
	match v {
		Value::Number(n) => n.as_u64().unwrap_or(0),
		Value::Object(m) => m.values().map(max_period).max().unwrap_or(0),
		Value::Array(a) => a.iter().map(max_period).max().unwrap_or(0),
		_ => 0,
	}
}

#[derive(Clone, Copy, Debug)]
pub struct GenOpts {
	pub wide: bool,
	pub price_sources: bool,
	pub nonneg_ma: bool,
}
impl Default for GenOpts {
	fn default() -> Self {
		Self { wide: false, price_sources: true, nonneg_ma: false }
	}
}

/// strategy of valid configurations of one indicator
pub fn config_strategy(name: &'static str, opts: GenOpts) -> impl Strategy<Value = CfgCase> {
	(proptest::collection::vec(any::<u16>(), 8..24), any::<u8>()).prop_map(move |(w, d)| {
		// the default configuration is a case too
		if d % 16 == 0 {
			return CfgCase { name: name.to_string(), cfg: Value::Null };
		}
		let mut c = Chooser::new(&w);
		c.wide = opts.wide;
		c.price_sources = opts.price_sources;
		c.nonneg_ma = opts.nonneg_ma;
		CfgCase { name: name.to_string(), cfg: build(name, &mut c) }
	})
}

/// materialise (Null = default configuration)
pub fn instantiate(case: &CfgCase) -> Result<Box<dyn crate::dyni::DynCfg>, String> {
	let k = crate::dyni::kind(&case.name).ok_or_else(|| format!("unknown indicator {}", case.name))?;
	if case.cfg.is_null() {
		Ok((k.default)())
	} else {
		(k.from_json)(&case.cfg)
	}
}
