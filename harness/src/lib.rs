//! yverif: property-based / fuzzing harness deciding the properties C01..C20 of yata.
pub mod approx;
pub mod cfggen;
pub mod dyni;
pub mod dynm;
pub mod engine;
pub mod fuzz_entry;
pub mod gen;
pub mod mgen;
pub mod refi;
pub mod refm;
pub mod transcript;
pub mod props;

pub use engine::{Tier, Stats, CaseResult, Failure};
