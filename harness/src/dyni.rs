//! Uniform, type-erased access to every indicator of `yata::indicators` (static types behind
//! a small trait), with JSON-level access to configurations.

use serde::{de::DeserializeOwned, Serialize};
use serde_json::Value;
use yata::core::{Candle, Error, IndicatorConfig, IndicatorConfigDyn, IndicatorInstance, IndicatorResult};
use yata::indicators::*;

pub trait DynInd: Send {
	fn next(&mut self, c: &Candle) -> IndicatorResult;
	fn over(&mut self, cs: &[Candle]) -> Vec<IndicatorResult>;
	fn name(&self) -> &'static str;
	fn size(&self) -> (u8, u8);
	fn to_json(&self) -> Result<String, String>;
	fn restore(&self, json: &str) -> Result<Box<dyn DynInd>, String>;
	fn clone_box(&self) -> Box<dyn DynInd>;
	fn config_json(&self) -> Value;
	/// feed `cs` through `IndicatorInstance::into_fn`
	fn via_into_fn(self: Box<Self>, cs: &[Candle]) -> Vec<IndicatorResult>;
}

pub trait DynCfg: Send {
	fn validate(&self) -> bool;
	fn size(&self) -> (u8, u8);
	fn name(&self) -> &'static str;
	fn const_name(&self) -> &'static str;
	fn set(&mut self, k: &str, v: String) -> Result<(), Error>;
	fn to_json(&self) -> Value;
	fn init(&self, c: &Candle) -> Result<Box<dyn DynInd>, Error>;
	fn over(&self, cs: &[Candle]) -> Result<Vec<IndicatorResult>, Error>;
	/// `init_fn(&cs[0])` and feed all of `cs`
	fn via_init_fn(&self, cs: &[Candle]) -> Result<Vec<IndicatorResult>, Error>;
	fn clone_box(&self) -> Box<dyn DynCfg>;
	fn as_dyn(&self) -> Box<dyn IndicatorConfigDyn<Candle>>;
}

struct I<T>(T);

impl<T> DynInd for I<T>
where
	T: IndicatorInstance + Serialize + DeserializeOwned + Clone + Send + 'static,
	T::Config: Serialize,
{
	fn next(&mut self, c: &Candle) -> IndicatorResult {
		IndicatorInstance::next(&mut self.0, c)
	}
	fn over(&mut self, cs: &[Candle]) -> Vec<IndicatorResult> {
		IndicatorInstance::over(&mut self.0, cs)
	}
	fn name(&self) -> &'static str {
		IndicatorInstance::name(&self.0)
	}
	fn size(&self) -> (u8, u8) {
		IndicatorInstance::size(&self.0)
	}
	fn to_json(&self) -> Result<String, String> {
		serde_json::to_string(&self.0).map_err(|e| e.to_string())
	}
	fn restore(&self, json: &str) -> Result<Box<dyn DynInd>, String> {
		let t: T = serde_json::from_str(json).map_err(|e| e.to_string())?;
		Ok(Box::new(I(t)))
	}
	fn clone_box(&self) -> Box<dyn DynInd> {
		Box::new(I(self.0.clone()))
	}
	fn config_json(&self) -> Value {
		serde_json::to_value(self.0.config()).unwrap_or(Value::Null)
	}
	fn via_into_fn(self: Box<Self>, cs: &[Candle]) -> Vec<IndicatorResult> {
		let mut f = IndicatorInstance::into_fn::<Candle>(self.0);
		cs.iter().map(|c| f(c)).collect()
	}
}

struct N<T>(T);

impl<T> DynInd for N<T>
where
	T: IndicatorInstance + Clone + Send + 'static,
	T::Config: Serialize,
{
	fn next(&mut self, c: &Candle) -> IndicatorResult {
		IndicatorInstance::next(&mut self.0, c)
	}
	fn over(&mut self, cs: &[Candle]) -> Vec<IndicatorResult> {
		IndicatorInstance::over(&mut self.0, cs)
	}
	fn name(&self) -> &'static str {
		IndicatorInstance::name(&self.0)
	}
	fn size(&self) -> (u8, u8) {
		IndicatorInstance::size(&self.0)
	}
	fn to_json(&self) -> Result<String, String> {
		Err("instance type does not implement Serialize".into())
	}
	fn restore(&self, json: &str) -> Result<Box<dyn DynInd>, String> {
		let _ = json;
		Err("instance type does not implement Deserialize".into())
	}
	fn clone_box(&self) -> Box<dyn DynInd> {
		Box::new(N(self.0.clone()))
	}
	fn config_json(&self) -> Value {
		serde_json::to_value(self.0.config()).unwrap_or(Value::Null)
	}
	fn via_into_fn(self: Box<Self>, cs: &[Candle]) -> Vec<IndicatorResult> {
		let mut f = IndicatorInstance::into_fn::<Candle>(self.0);
		cs.iter().map(|c| f(c)).collect()
	}
}

struct Cf<C>(C);

impl<C> DynCfg for Cf<C>
where
	C: IndicatorConfig + Serialize + DeserializeOwned + Clone + Send + 'static,
	C::Instance: Serialize + DeserializeOwned + Clone + Send + 'static,
{
	fn validate(&self) -> bool {
		IndicatorConfig::validate(&self.0)
	}
	fn size(&self) -> (u8, u8) {
		IndicatorConfig::size(&self.0)
	}
	fn name(&self) -> &'static str {
		IndicatorConfig::name(&self.0)
	}
	fn const_name(&self) -> &'static str {
		C::NAME
	}
	fn set(&mut self, k: &str, v: String) -> Result<(), Error> {
		IndicatorConfig::set(&mut self.0, k, v)
	}
	fn to_json(&self) -> Value {
		serde_json::to_value(&self.0).unwrap_or(Value::Null)
	}
	fn init(&self, c: &Candle) -> Result<Box<dyn DynInd>, Error> {
		let i = IndicatorConfig::init(self.0.clone(), c)?;
		Ok(Box::new(I(i)))
	}
	fn over(&self, cs: &[Candle]) -> Result<Vec<IndicatorResult>, Error> {
		IndicatorConfig::over(self.0.clone(), cs)
	}
	fn via_init_fn(&self, cs: &[Candle]) -> Result<Vec<IndicatorResult>, Error> {
		let mut f = IndicatorConfig::init_fn(self.0.clone(), &cs[0])?;
		Ok(cs.iter().map(|c| f(c)).collect())
	}
	fn clone_box(&self) -> Box<dyn DynCfg> {
		Box::new(Cf(self.0.clone()))
	}
	fn as_dyn(&self) -> Box<dyn IndicatorConfigDyn<Candle>> {
		Box::new(self.0.clone())
	}
}

struct Cn<C>(C);

impl<C> DynCfg for Cn<C>
where
	C: IndicatorConfig + Serialize + DeserializeOwned + Clone + Send + 'static,
	C::Instance: Clone + Send + 'static,
{
	fn validate(&self) -> bool {
		IndicatorConfig::validate(&self.0)
	}
	fn size(&self) -> (u8, u8) {
		IndicatorConfig::size(&self.0)
	}
	fn name(&self) -> &'static str {
		IndicatorConfig::name(&self.0)
	}
	fn const_name(&self) -> &'static str {
		C::NAME
	}
	fn set(&mut self, k: &str, v: String) -> Result<(), Error> {
		IndicatorConfig::set(&mut self.0, k, v)
	}
	fn to_json(&self) -> Value {
		serde_json::to_value(&self.0).unwrap_or(Value::Null)
	}
	fn init(&self, c: &Candle) -> Result<Box<dyn DynInd>, Error> {
		let i = IndicatorConfig::init(self.0.clone(), c)?;
		Ok(Box::new(N(i)))
	}
	fn over(&self, cs: &[Candle]) -> Result<Vec<IndicatorResult>, Error> {
		IndicatorConfig::over(self.0.clone(), cs)
	}
	fn via_init_fn(&self, cs: &[Candle]) -> Result<Vec<IndicatorResult>, Error> {
		let mut f = IndicatorConfig::init_fn(self.0.clone(), &cs[0])?;
		Ok(cs.iter().map(|c| f(c)).collect())
	}
	fn clone_box(&self) -> Box<dyn DynCfg> {
		Box::new(Cn(self.0.clone()))
	}
	fn as_dyn(&self) -> Box<dyn IndicatorConfigDyn<Candle>> {
		Box::new(self.0.clone())
	}
}

pub struct IndKind {
	pub name: &'static str,
	pub default: fn() -> Box<dyn DynCfg>,
	pub from_json: fn(&Value) -> Result<Box<dyn DynCfg>, String>,
}

macro_rules! ind {
	($name:literal, $ty:ty) => {
		IndKind {
			name: $name,
			default: || Box::new(Cf(<$ty>::default())),
			from_json: |v| {
				let c: $ty = serde_json::from_value(v.clone()).map_err(|e| e.to_string())?;
				Ok(Box::new(Cf(c)))
			},
		}
	};
}

pub fn kinds() -> Vec<IndKind> {
	vec![
		ind!("Aroon", Aroon),
		ind!("AverageDirectionalIndex", AverageDirectionalIndex),
		ind!("AwesomeOscillator", AwesomeOscillator),
		ind!("BollingerBands", BollingerBands),
		ind!("ChaikinMoneyFlow", ChaikinMoneyFlow),
		ind!("ChaikinOscillator", ChaikinOscillator),
		ind!("ChandeKrollStop", ChandeKrollStop),
		ind!("ChandeMomentumOscillator", ChandeMomentumOscillator),
		ind!("CommodityChannelIndex", CommodityChannelIndex),
		ind!("CoppockCurve", CoppockCurve),
		ind!("DetrendedPriceOscillator", DetrendedPriceOscillator),
		ind!("DonchianChannel", DonchianChannel),
		ind!("EaseOfMovement", EaseOfMovement),
		ind!("EldersForceIndex", EldersForceIndex),
		ind!("Envelopes", Envelopes),
		ind!("FisherTransform", FisherTransform),
		ind!("HullMovingAverage", HullMovingAverage),
		ind!("IchimokuCloud", IchimokuCloud),
		ind!("Kaufman", Kaufman),
		ind!("KeltnerChannel", KeltnerChannel),
		ind!("KlingerVolumeOscillator", KlingerVolumeOscillator),
		ind!("KnowSureThing", KnowSureThing),
		ind!("MACD", MACD),
		ind!("MomentumIndex", MomentumIndex),
		ind!("MoneyFlowIndex", MoneyFlowIndex),
		ind!("ParabolicSAR", ParabolicSAR),
		ind!("PivotReversalStrategy", PivotReversalStrategy),
		ind!("PriceChannelStrategy", PriceChannelStrategy),
		ind!("RelativeStrengthIndex", RelativeStrengthIndex),
		ind!("RelativeVigorIndex", RelativeVigorIndex),
		ind!("SMIErgodicIndicator", SMIErgodicIndicator),
		ind!("StochasticOscillator", StochasticOscillator),
		ind!("Trix", Trix),
		ind!("TrendStrengthIndex", TrendStrengthIndex),
		ind!("TrueStrengthIndex", TrueStrengthIndex),
		ind!("WoodiesCCI", WoodiesCCI),
		IndKind {
			name: "Example",
			default: || Box::new(Cn(example::Example::default())),
			from_json: |v| {
				let c: example::Example = serde_json::from_value(v.clone()).map_err(|e| e.to_string())?;
				Ok(Box::new(Cn(c)))
			},
		},
	]
}

pub fn kind(name: &str) -> Option<IndKind> {
	kinds().into_iter().find(|k| k.name == name)
}
