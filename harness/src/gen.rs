//! Shared generators: segment-built value streams, candle streams, lengths, special floats.
//!
//! All randomness comes from proptest strategies. Streams are generated as a *spec*
//! (list of segments with a few noise words each) and mapped to the concrete `Vec<f64>`,
//! so proptest shrinks the spec (fewer/shorter segments, smaller noise) and the case that
//! ends up in a replay file is the concrete stream.

use proptest::prelude::*;
use serde::{Deserialize, Serialize};
use yata::core::{Candle, PeriodType, ValueType};

/// The code imposes no lower limit on magnitudes; the bound keeps squares and products far from the subnormal
/// range of the crate's value type, where the relative error model of the allowance does not apply
/// (f64: 1e-24, squares 1e-48; `value_type_f32`: 1e-12, squares 1e-24 against a smallest normal of 1.2e-38).
pub fn mag_min() -> f64 {
	if std::mem::size_of::<ValueType>() == 4 {
		1e-12
	} else {
		1e-24
	}
}
pub const MAG_MAX: f64 = 1e9;

/// round to the crate's value type (identity for f64 builds)
#[inline]
pub fn vt(x: f64) -> f64 {
	(x as ValueType) as f64
}

#[derive(Clone, Debug)]
pub struct SegSpec {
	pub kind: u8,
	pub len_sel: u16,
	pub a: u16,
	pub b: u16,
	pub noise: Vec<u16>,
}

#[derive(Clone, Debug)]
pub struct StreamSpec {
	pub base_exp: i8,
	pub base_mant: u16,
	pub negative: bool,
	pub segs: Vec<SegSpec>,
}

#[derive(Clone, Copy, Debug, PartialEq, Eq)]
pub enum Domain {
	/// any sign, zeros allowed
	Any,
	/// strictly positive
	Positive,
	/// non-negative (volumes)
	NonNegative,
}

fn seg_strategy(kinds: u8) -> impl Strategy<Value = SegSpec> {
	(0..kinds, any::<u16>(), any::<u16>(), any::<u16>(), proptest::collection::vec(any::<u16>(), 1..24))
		.prop_map(|(kind, len_sel, a, b, noise)| SegSpec { kind, len_sel, a, b, noise })
}

pub fn spec_strategy(max_segs: usize) -> impl Strategy<Value = StreamSpec> {
	(prop_oneof![6 => -5i8..=8, 1 => -22i8..=-6], any::<u16>(), any::<bool>(), proptest::collection::vec(seg_strategy(12), 1..=max_segs))
		.prop_map(|(base_exp, base_mant, negative, segs)| StreamSpec { base_exp, base_mant, negative, segs })
}

fn unit(n: u16) -> f64 {
	n as f64 / 65536.0
}

fn clamp_mag(x: f64, dom: Domain) -> f64 {
	if x == 0.0 {
		return match dom {
			Domain::Positive => mag_min(),
			_ => 0.0,
		};
	}
	let m = x.abs().clamp(mag_min(), MAG_MAX);
	match dom {
		Domain::Any => m.copysign(x),
		// volumes: 0 or at least 1e-6 (a dynamic range of volumes beyond 10^18 is not a realistic input and
		// only measures the cancellation of running volume sums)
		// (in a `value_type_f32` build the same argument limits the range to what single precision resolves:
		// a running volume sum that has seen 1e6 cannot hold 1e-5 afterwards - it cancels to exactly 0 and a
		// volume-weighted quotient becomes 0/0 - so volumes stay within [1, 1e4] there)
		Domain::NonNegative => {
			if std::mem::size_of::<ValueType>() == 4 {
				m.clamp(1.0, 1e4)
			} else {
				m.max(1e-6)
			}
		}
		_ => m,
	}
}

/// segment length relative to the window length n
fn seg_len(sel: u16, n: usize) -> usize {
	let n = n.max(1);
	match sel % 10 {
		0 => 1,
		1 => 2,
		2 => n.saturating_sub(1).max(1),
		3 => n,
		4 => n + 1,
		5 => 2 * n,
		6 => 2 * n + 1,
		7 => 3 * n + 2,
		_ => 1 + ((sel as usize / 10) * (4 * n + 8) >> 13).min(4 * n + 8),
	}
}

/// Build a concrete stream of at most `max_len` (at least 1) values. `n` is the window
/// length the stream is aimed at (segment lengths are chosen relative to it).
pub fn build_stream(spec: &StreamSpec, n: usize, max_len: usize, dom: Domain) -> Vec<f64> {
	let mut out: Vec<f64> = Vec::new();
	let exp_floor = if std::mem::size_of::<ValueType>() == 4 { -11 } else { i8::MIN };
	let mut level = (1.0 + unit(spec.base_mant) * 9.0) * 10f64.powi(spec.base_exp.max(exp_floor) as i32);
	if spec.negative && dom == Domain::Any {
		level = -level;
	}
	level = clamp_mag(level, dom);
	let mut cur = level;
	out.push(vt(cur));
	for seg in &spec.segs {
		if out.len() >= max_len {
			break;
		}
		let len = seg_len(seg.len_sel, n).min(max_len - out.len());
		let nz = |i: usize| -> f64 {
			// noise word i, cycling with a cheap hash so long segments do not repeat exactly
			let w = seg.noise[i % seg.noise.len()] as u64;
			let r = (i / seg.noise.len()) as u64;
			if r == 0 {
				w as f64 / 65536.0
			} else {
				(crate::engine::mix(w, r) >> 11) as f64 / (1u64 << 53) as f64
			}
		};
		let a = unit(seg.a);
		let b = unit(seg.b);
		match seg.kind {
			0 => {
				// iid uniform around the level, relative half-width a (may cross zero when a > 0.5)
				let half = level.abs() * a * 2.0;
				for i in 0..len {
					cur = clamp_mag(level + (nz(i) * 2.0 - 1.0) * half, dom);
					out.push(vt(cur));
				}
			}
			1 => {
				// additive random walk, step size relative to the level
				let step = level.abs() * (a * a) * 0.5 + level.abs() * 1e-9;
				for i in 0..len {
					cur = clamp_mag(cur + (nz(i) * 2.0 - 1.0) * step, dom);
					out.push(vt(cur));
				}
				level = if cur == 0.0 { level } else { cur };
			}
			2 => {
				// multiplicative random walk
				for i in 0..len {
					let f = 1.0 + (nz(i) * 2.0 - 1.0) * a * 0.2;
					cur = clamp_mag(cur * f, dom);
					out.push(vt(cur));
				}
				level = if cur == 0.0 { level } else { cur };
			}
			3 => {
				// plateau: exactly flat
				for _ in 0..len {
					out.push(vt(cur));
				}
			}
			4 => {
				// strictly monotone run
				let dir = if seg.b & 1 == 0 { 1.0 } else { -1.0 };
				let step = level.abs() * (a * 0.1 + 1e-6);
				for i in 0..len {
					cur = clamp_mag(cur + dir * step * (1.0 + nz(i)), dom);
					out.push(vt(cur));
				}
				level = if cur == 0.0 { level } else { cur };
			}
			5 => {
				// one spike of 10^+-k, then back
				let k = 1 + (seg.b % 6) as i32;
				let f = if seg.b & 0x100 == 0 { 10f64.powi(k) } else { 10f64.powi(-k) };
				out.push(vt(clamp_mag(cur * f, dom)));
				for _ in 1..len {
					out.push(vt(cur));
				}
			}
			6 => {
				// scale jump of the level
				let k = 1 + (seg.b % 6) as i32;
				let f = if seg.b & 0x100 == 0 { 10f64.powi(k) } else { 10f64.powi(-k) };
				level = clamp_mag(level * f, dom);
				for i in 0..len {
					cur = clamp_mag(level * (1.0 + (nz(i) - 0.5) * a * 0.1), dom);
					out.push(vt(cur));
				}
			}
			7 => {
				// sign flip of the level
				if dom == Domain::Any {
					level = -level;
				}
				for i in 0..len {
					cur = clamp_mag(level * (1.0 + (nz(i) - 0.5) * a * 0.5), dom);
					out.push(vt(cur));
				}
			}
			8 => {
				// small integer lattice (exact arithmetic, many ties)
				let unit_v = if seg.b & 1 == 0 { 1.0 } else { clamp_mag(level.abs(), Domain::Positive) };
				let span = 1 + (seg.b >> 1) % 7;
				for i in 0..len {
					let k = (nz(i) * (2 * span + 1) as f64).floor() - span as f64;
					let v = match dom {
						Domain::Any => k * unit_v,
						Domain::NonNegative => k.abs() * unit_v,
						Domain::Positive => (k.abs() + 1.0) * unit_v,
					};
					cur = v;
					out.push(vt(cur));
				}
			}
			9 => {
				// run of exact zeros (or of the minimum magnitude for positive domains)
				let z = if dom == Domain::Positive { cur } else { 0.0 };
				for _ in 0..len {
					out.push(vt(z));
				}
				cur = z;
			}
			10 => {
				// alternation between two values (ties spread over the window)
				let other = clamp_mag(cur * (1.0 + a) + level * b * 0.01, dom);
				for i in 0..len {
					out.push(vt(if i % 2 == 0 { other } else { cur }));
				}
			}
			_ => {
				// saw-tooth with period p
				let p = 2 + (seg.b % 9) as usize;
				let step = level.abs() * (a * 0.05 + 1e-4);
				let base = cur;
				for i in 0..len {
					cur = clamp_mag(base + step * (i % p) as f64, dom);
					out.push(vt(cur));
				}
			}
		}
	}
	out.truncate(max_len.max(1));
	out
}

/// stratified window lengths 1..=254 with boundary weight
pub fn length_strategy(min: u32) -> SBoxedStrategy<u32> {
	let max = 254u32;
	// wide period types (C20/O2): window lengths beyond 255
	if PeriodType::MAX as u64 > 255 && std::env::var("VERIF_WIDE").is_ok() {
		return prop_oneof![
			4 => min..=40u32,
			2 => 41u32..=254,
			3 => prop_oneof![Just(255u32), Just(256u32), Just(257u32), Just(300u32)],
			1 => prop_oneof![Just(1000u32), Just(5000u32), Just(65534u32)],
		]
		.sboxed();
	}
	prop_oneof![
		4 => min..=(min + 4),
		3 => (min + 5).min(20)..=20u32,
		3 => 21u32..=126,
		2 => prop_oneof![Just(127u32), Just(128u32)],
		2 => 129u32..=252,
		2 => prop_oneof![Just(253u32), Just(max)],
	]
	.sboxed()
}

/// A value stream aimed at window length `n`: (init, stream). `init_mode`:
/// 0 = init equals the first element (API contract), 1 = init is an independent value.
#[derive(Serialize, Deserialize, Clone, Debug)]
pub struct ValStream {
	pub n: u32,
	pub init: f64,
	pub xs: Vec<f64>,
}

pub fn val_stream(min_n: u32, max_len: usize, dom: Domain, allow_free_init: bool) -> SBoxedStrategy<ValStream> {
	(length_strategy(min_n), spec_strategy(10), any::<u8>(), spec_strategy(1))
		.prop_map(move |(n, spec, mode, ispec)| {
			// wide windows (C20/O2): long enough to replace the window completely where that is affordable
			let max_len = if n > 254 && n <= 2000 { max_len.max(3 * n as usize + 20) } else { max_len };
			let xs = build_stream(&spec, n as usize, max_len, dom);
			let init = if allow_free_init && mode % 3 == 0 {
				build_stream(&ispec, 1, 1, dom)[0]
			} else {
				xs[0]
			};
			ValStream { n, init, xs }
		})
		.sboxed()
}

/// value stream for a fixed length
pub fn val_stream_n(n: u32, max_len: usize, dom: Domain, allow_free_init: bool) -> SBoxedStrategy<ValStream> {
	(spec_strategy(10), any::<u8>(), spec_strategy(1))
		.prop_map(move |(spec, mode, ispec)| {
			let xs = build_stream(&spec, n as usize, max_len, dom);
			let init = if allow_free_init && mode % 3 == 0 {
				build_stream(&ispec, 1, 1, dom)[0]
			} else {
				xs[0]
			};
			ValStream { n, init, xs }
		})
		.sboxed()
}

// ---------------------------------------------------------------------------------------
// candles

#[derive(Serialize, Deserialize, Clone, Copy, Debug, PartialEq)]
pub struct C5 {
	pub o: f64,
	pub h: f64,
	pub l: f64,
	pub c: f64,
	pub v: f64,
}
impl C5 {
	pub fn candle(&self) -> Candle {
		Candle {
			open: self.o as ValueType,
			high: self.h as ValueType,
			low: self.l as ValueType,
			close: self.c as ValueType,
			volume: self.v as ValueType,
		}
	}
	pub fn from_candle(c: &Candle) -> Self {
		C5 { o: c.open as f64, h: c.high as f64, l: c.low as f64, c: c.close as f64, v: c.volume as f64 }
	}
	pub fn tp(&self) -> f64 {
		(self.h + self.l + self.c) / 3.0
	}
	pub fn hl2(&self) -> f64 {
		(self.h + self.l) * 0.5
	}
}

#[derive(Clone, Debug)]
pub struct CandleSpec {
	pub price: StreamSpec,
	pub volume: StreamSpec,
	pub shape: Vec<u16>,
	/// candles on a price plateau are exactly flat (open = high = low = close)
	pub flat_exact: bool,
}

pub fn candle_spec_strategy() -> impl Strategy<Value = CandleSpec> {
	(spec_strategy(10), spec_strategy(6), proptest::collection::vec(any::<u16>(), 4..40), any::<bool>())
		.prop_map(|(price, volume, shape, flat_exact)| CandleSpec { price, volume, shape, flat_exact })
}

/// Valid candles by construction: low <= open, close <= high, positive prices, volume >= 0.
/// Prices are kept inside [1e-4, 1e7] so that price*volume and squares stay far from overflow; one stream in
/// seven (f64 builds) lives at a tiny price scale instead, 1e-12 .. 1e-6 (the code imposes no lower limit
/// on prices, and absolute thresholds such as `< EPSILON` only show there).
pub fn build_candles(spec: &CandleSpec, n: usize, max_len: usize) -> Vec<C5> {
	let mut p = spec.price.clone();
	let tiny = p.base_exp < -5 && std::mem::size_of::<ValueType>() == 8;
	p.base_exp = if tiny { p.base_exp.clamp(-12, -6) } else { p.base_exp.clamp(-3, 5) };
	let floor = if tiny { 10f64.powi(p.base_exp as i32 - 2) } else { 1e-4 };
	let prices = build_stream(&p, n, max_len, Domain::Positive);
	let vols = build_stream(&spec.volume, n, max_len, Domain::NonNegative);
	let mut out = Vec::with_capacity(prices.len());
	let mut prev_close = prices[0].clamp(floor, 1e7);
	for (i, &c0) in prices.iter().enumerate() {
		let c = vt(c0.clamp(floor, 1e7));
		let w = spec.shape[i % spec.shape.len()] as u64;
		let r = crate::engine::mix(w, (i / spec.shape.len()) as u64);
		// open: previous close (no gap) mostly, sometimes a gap, sometimes equal to close
		let o = match r % 8 {
			0 => vt((prev_close * (1.0 + ((r >> 8) % 1000) as f64 * 1e-4 - 0.05)).clamp(floor, 1e7)),
			1 => c,
			_ => prev_close,
		};
		// wicks: frequently none at all (so that high == low happens when o == c)
		let up = match (r >> 20) % 4 {
			0 => 0.0,
			1 => ((r >> 24) % 1000) as f64 * 1e-5,
			2 => ((r >> 24) % 1000) as f64 * 1e-3,
			_ => 0.0,
		};
		let dn = match (r >> 36) % 4 {
			0 => 0.0,
			1 => ((r >> 40) % 1000) as f64 * 1e-5,
			2 => ((r >> 40) % 900) as f64 * 1e-3,
			_ => 0.0,
		};
		let (o, up, dn) = if spec.flat_exact && i > 0 && c == prev_close { (c, 0.0, 0.0) } else { (o, up, dn) };
		let mut h = vt(o.max(c) * (1.0 + up));
		let mut l = vt(o.min(c) * (1.0 - dn));
		// rounding to the value type must not break the ordering
		if h < o.max(c) {
			h = o.max(c);
		}
		if l > o.min(c) {
			l = o.min(c);
		}
		let v = vt(vols[i % vols.len()].min(1e12));
		out.push(C5 { o, h, l, c, v });
		prev_close = c;
	}
	out
}

/// volatile -> exactly flat (at least two windows long) -> volatile, with zero-volume stretches
pub fn regime_spec_strategy() -> impl Strategy<Value = CandleSpec> {
	let seg = |kind: u8, len_sel: u16| (any::<u16>(), any::<u16>(), proptest::collection::vec(any::<u16>(), 1..24)).prop_map(move |(a, b, noise)| SegSpec { kind, len_sel, a, b, noise });
	let vol_kind = prop_oneof![Just(0u8), Just(1u8), Just(2u8), Just(4u8), Just(6u8), Just(11u8)];
	let price = (-3i8..=5, any::<u16>(), vol_kind.clone().prop_flat_map(move |k| seg(k, 7)), seg(3, 7), vol_kind.clone().prop_flat_map(move |k| seg(k, 5)), seg(3, 6), vol_kind.prop_flat_map(move |k| seg(k, 7)))
		.prop_map(|(base_exp, base_mant, a, b, c, d, e)| StreamSpec { base_exp, base_mant, negative: false, segs: vec![a, b, c, d, e] });
	let volume = (-2i8..=6, any::<u16>(), seg(0, 7), seg(9, 7), seg(2, 5), seg(9, 6), seg(0, 7)).prop_map(|(base_exp, base_mant, a, b, c, d, e)| StreamSpec { base_exp, base_mant, negative: false, segs: vec![a, b, c, d, e] });
	(price, volume, proptest::collection::vec(any::<u16>(), 4..40), prop_oneof![3 => Just(true), 1 => Just(false)]).prop_map(|(price, volume, shape, flat_exact)| CandleSpec { price, volume, shape, flat_exact })
}

pub fn regime_candle_stream_n(n: u32, max_len: usize) -> SBoxedStrategy<CandleStream> {
	regime_spec_strategy().prop_map(move |spec| CandleStream { n, cs: build_candles(&spec, n as usize, max_len) }).sboxed()
}

#[derive(Serialize, Deserialize, Clone, Debug)]
pub struct CandleStream {
	pub n: u32,
	pub cs: Vec<C5>,
}

pub fn candle_stream(min_n: u32, max_len: usize) -> SBoxedStrategy<CandleStream> {
	(length_strategy(min_n), candle_spec_strategy())
		.prop_map(move |(n, spec)| CandleStream { n, cs: build_candles(&spec, n as usize, max_len) })
		.sboxed()
}

pub fn candle_stream_n(n: u32, max_len: usize) -> SBoxedStrategy<CandleStream> {
	candle_spec_strategy()
		.prop_map(move |spec| CandleStream { n, cs: build_candles(&spec, n as usize, max_len) })
		.sboxed()
}

// ---------------------------------------------------------------------------------------
// long one-sided trends

/// Long structured candle streams: a trend (linear or geometric, up or down), a long saw-tooth, a staircase
/// or a level, each overlaid with a short zig-zag so that there is a local peak and trough every few bars.
/// They keep oscillators on one side of zero for thousands of bars while their reversal, peak and
/// "bars since" counters keep counting — the states a random walk leaves after a few dozen bars.
#[derive(Clone, Debug)]
pub struct TrendSpec {
	pub kind: u8,
	pub len_sel: u16,
	pub base_sel: u8,
	pub slope_sel: u8,
	pub zig_sel: u8,
	pub zig_period: u8,
	pub wick_sel: u8,
	pub vol_sel: u8,
	pub jitter: Vec<u16>,
}

pub fn trend_spec_strategy() -> impl Strategy<Value = TrendSpec> {
	(0u8..7, any::<u16>(), 0u8..4, 0u8..4, 0u8..4, 2u8..=5, 0u8..3, 0u8..4, proptest::collection::vec(any::<u16>(), 1..12))
		.prop_map(|(kind, len_sel, base_sel, slope_sel, zig_sel, zig_period, wick_sel, vol_sel, jitter)| TrendSpec { kind, len_sel, base_sel, slope_sel, zig_sel, zig_period, wick_sel, vol_sel, jitter })
}

pub fn build_trend(spec: &TrendSpec, max_len: usize) -> Vec<C5> {
	let len = 2 + ((spec.len_sel as usize * max_len.saturating_sub(1)) >> 16);
	let base = [100.0, 1.0, 1e4, 0.05][spec.base_sel as usize % 4];
	let rate = [0.005, 0.001, 0.02, 0.0003][spec.slope_sel as usize % 4];
	let zig_rel = [0.6, 0.3, 1.5, 0.0][spec.zig_sel as usize % 4];
	let zp = spec.zig_period.clamp(2, 5) as usize;
	let step = base * rate;
	let half = [300usize, 700, 1500, 64][spec.slope_sel as usize % 4];
	let mut out = Vec::with_capacity(len);
	let mut prev = base;
	let mut geo = base;
	for i in 0..len {
		// triangle wave of period zp in [-1, 1]
		let ph = i % zp;
		let tri = if zp == 2 { if ph == 0 { -1.0 } else { 1.0 } } else { 1.0 - 2.0 * (ph as f64 / (zp - 1) as f64) };
		let j = spec.jitter[i % spec.jitter.len()] as u64;
		let jit = if spec.jitter.len() > 1 { ((crate::engine::mix(j, (i / spec.jitter.len()) as u64) % 1000) as f64 / 1000.0 - 0.5) * 0.2 } else { 0.0 };
		let level = match spec.kind {
			0 => base + step * i as f64,
			1 => base + step * (len - i) as f64,
			2 => {
				geo *= 1.0 + rate * 0.2;
				geo.min(1e9)
			}
			3 => {
				geo *= 1.0 - rate * 0.2;
				geo.max(1e-3)
			}
			4 => {
				let k = i % (2 * half);
				base + step * (if k < half { k } else { 2 * half - k }) as f64
			}
			5 => base + step * 40.0 * (i / (10 * zp)) as f64,
			_ => base,
		};
		let unit = if matches!(spec.kind, 2 | 3) { level * rate * 0.2 } else { step };
		let c = vt((level + unit * (zig_rel * tri + jit)).max(base * 1e-4));
		let o = if i == 0 { c } else { prev };
		let w = match spec.wick_sel % 3 {
			0 => 0.0,
			1 => c * 1e-3,
			_ => c * 1e-2,
		};
		let h = vt(o.max(c) + w).max(o.max(c));
		let l = vt((o.min(c) - w).max(base * 5e-5)).min(o.min(c));
		let v = vt(match spec.vol_sel % 4 {
			0 => 1000.0,
			1 => if i % 2 == 0 { 0.0 } else { 500.0 },
			2 => 1.0 + i as f64,
			_ => (crate::engine::mix(j, i as u64) % 100_000) as f64,
		});
		out.push(C5 { o, h, l, c, v });
		prev = c;
	}
	out
}

pub fn trend_candle_stream(max_len: usize) -> SBoxedStrategy<CandleStream> {
	trend_spec_strategy().prop_map(move |spec| CandleStream { n: 0, cs: build_trend(&spec, max_len) }).sboxed()
}

/// Candles on an exactly representable lattice (ticks of 1/4 around 100, the decoder of the `indicator_program`
/// fuzz target): exact ties between prices, averages and thresholds, exactly flat bars, dojis, gaps, outside
/// bars, zero / small / huge volumes.
pub fn lattice_candle_stream(max_len: usize) -> SBoxedStrategy<CandleStream> {
	proptest::collection::vec(any::<u8>(), 4..2 * max_len)
		.prop_map(move |bytes| {
			let mut cur = crate::fuzz_entry::Cur::new(&bytes);
			CandleStream { n: 0, cs: crate::fuzz_entry::lattice_candles(&mut cur, max_len) }
		})
		.sboxed()
}

/// Exactly linear stretches on the 1/4-tick lattice, each longer than the window `n`: rise, fall or rest with a
/// constant step of k ticks per bar, bodies without wicks (or wicks of whole ticks), so that a window can hold a
/// perfectly monotone-linear series (correlation with time exactly +-1) and every sum of prices or squares is exact.
pub fn ramp_candle_stream_n(n: u32, max_len: usize) -> SBoxedStrategy<CandleStream> {
	let n = n.max(2) as usize;
	proptest::collection::vec((0u8..6, 1u8..=8, 0u8..4, 0u8..3, 0u8..4), 2..8)
		.prop_map(move |segs| {
			let tick = 0.25f64;
			let mut prev = 100.0f64;
			let mut cs = Vec::new();
			for (kind, k, len_sel, wick, vol) in segs {
				let len = [n + 1, n + 3, 2 * n + 1, n / 2 + 1][len_sel as usize];
				let step = match kind {
					0 | 1 => k as f64 * tick,
					2 | 3 => -(k as f64) * tick,
					4 => 0.0,
					_ => if k % 2 == 0 { 8.0 * tick } else { -8.0 * tick },
				};
				for i in 0..len {
					if cs.len() >= max_len {
						break;
					}
					let mut c = prev + step;
					if c < 4.0 || c > 1.0e4 {
						// turn around instead of leaving the lattice range
						c = prev - step;
					}
					let o = prev;
					let w = wick as f64 * tick;
					let (h, l) = (o.max(c) + w, (o.min(c) - w).max(tick));
					let v = match vol {
						0 => 100.0,
						1 => if i % 3 == 0 { 0.0 } else { 50.0 },
						2 => 1.0 + i as f64,
						_ => 1.0e6,
					};
					cs.push(C5 { o: vt(o), h: vt(h), l: vt(l), c: vt(c), v: vt(v) });
					prev = c;
				}
			}
			CandleStream { n: n as u32, cs }
		})
		.sboxed()
}

pub fn is_valid_c5(c: &C5) -> bool {
	c.l <= c.o && c.l <= c.c && c.o <= c.h && c.c <= c.h && c.l > 0.0 && c.v >= 0.0 && c.h.is_finite() && c.v.is_finite()
}

pub fn period_max() -> u64 {
	PeriodType::MAX as u64
}

// ---------------------------------------------------------------------------------------
// floats that may be non-finite inside serializable cases

#[derive(Clone, Copy, Debug, PartialEq)]
pub struct Fx(pub f64);

impl Serialize for Fx {
	fn serialize<S: serde::Serializer>(&self, s: S) -> Result<S::Ok, S::Error> {
		if self.0.is_finite() {
			s.serialize_f64(self.0)
		} else if self.0.is_nan() {
			s.serialize_str("NaN")
		} else if self.0 > 0.0 {
			s.serialize_str("inf")
		} else {
			s.serialize_str("-inf")
		}
	}
}
impl<'de> Deserialize<'de> for Fx {
	fn deserialize<D: serde::Deserializer<'de>>(d: D) -> Result<Self, D::Error> {
		let v = serde_json::Value::deserialize(d)?;
		match v {
			serde_json::Value::Number(n) => Ok(Fx(n.as_f64().unwrap_or(f64::NAN))),
			serde_json::Value::String(s) => match s.as_str() {
				"NaN" => Ok(Fx(f64::NAN)),
				"inf" => Ok(Fx(f64::INFINITY)),
				"-inf" => Ok(Fx(f64::NEG_INFINITY)),
				_ => Err(serde::de::Error::custom("bad float")),
			},
			_ => Err(serde::de::Error::custom("bad float")),
		}
	}
}
