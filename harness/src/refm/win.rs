//! naive window formulas; `w` is the window oldest first

pub fn sum(w: &[f64]) -> f64 {
	w.iter().sum()
}
pub fn mean(w: &[f64]) -> f64 {
	sum(w) / w.len() as f64
}
/// weights 1..n oldest -> newest
pub fn wma(w: &[f64]) -> f64 {
	let n = w.len();
	let mut s = 0.0;
	for (i, x) in w.iter().enumerate() {
		s += (i + 1) as f64 * x;
	}
	s / (n * (n + 1) / 2) as f64
}
/// symmetric weights min(i+1, n-i)
pub fn swma(w: &[f64]) -> f64 {
	let n = w.len();
	let mut s = 0.0;
	let mut ws = 0.0;
	for (i, x) in w.iter().enumerate() {
		let k = (i + 1).min(n - i) as f64;
		s += k * x;
		ws += k;
	}
	s / ws
}
/// least-squares line through the points (0,w0)..(n-1,w_{n-1}) evaluated at n-1
pub fn linreg(w: &[f64]) -> f64 {
	let n = w.len() as f64;
	let mx = (n - 1.0) / 2.0;
	let my = mean(w);
	let mut sxy = 0.0;
	let mut sxx = 0.0;
	for (i, y) in w.iter().enumerate() {
		let dx = i as f64 - mx;
		sxy += dx * (y - my);
		sxx += dx * dx;
	}
	let k = sxy / sxx;
	my + k * (n - 1.0 - mx)
}
/// sum w_i x_i / sum w_i, last weight on the newest value
pub fn conv(w: &[f64], weights: &[f64]) -> f64 {
	let mut s = 0.0;
	for (x, k) in w.iter().zip(weights.iter()) {
		s += x * k;
	}
	s / weights.iter().sum::<f64>()
}
/// sample variance (n-1), two-pass
pub fn var_sample(w: &[f64]) -> f64 {
	let m = mean(w);
	let mut s = 0.0;
	for x in w {
		s += (x - m) * (x - m);
	}
	s / (w.len() as f64 - 1.0)
}
pub fn mean_abs_dev(w: &[f64]) -> f64 {
	let m = mean(w);
	w.iter().map(|x| (x - m).abs()).sum::<f64>() / w.len() as f64
}
pub fn median_abs_dev(w: &[f64]) -> f64 {
	let m = super::sel::median(w);
	w.iter().map(|x| (x - m).abs()).sum::<f64>() / w.len() as f64
}
/// impulse-response style weights of a filter given as closure on a window: not needed here
pub fn l1_gain(weights: &[f64]) -> f64 {
	let s: f64 = weights.iter().sum();
	let a: f64 = weights.iter().map(|x| x.abs()).sum();
	a / s.abs()
}
