//! exact selections on a window (oldest first)

pub fn max(w: &[f64]) -> f64 {
	let mut m = w[0];
	for &x in w {
		if x > m {
			m = x;
		}
	}
	m
}
pub fn min(w: &[f64]) -> f64 {
	let mut m = w[0];
	for &x in w {
		if x < m {
			m = x;
		}
	}
	m
}
/// age (0 = newest) of the newest maximal element
pub fn newest_argmax_age(w: &[f64]) -> usize {
	let m = max(w);
	for (age, &x) in w.iter().rev().enumerate() {
		if x == m {
			return age;
		}
	}
	unreachable!()
}
pub fn newest_argmin_age(w: &[f64]) -> usize {
	let m = min(w);
	for (age, &x) in w.iter().rev().enumerate() {
		if x == m {
			return age;
		}
	}
	unreachable!()
}
/// mean of the two middle order statistics
pub fn median(w: &[f64]) -> f64 {
	let mut s = w.to_vec();
	s.sort_by(|a, b| a.partial_cmp(b).expect("finite"));
	let n = s.len();
	(s[n / 2] + s[(n - 1) / 2]) * 0.5
}
pub fn has_extremum_tie(w: &[f64]) -> bool {
	let (mx, mn) = (max(w), min(w));
	w.iter().filter(|&&x| x == mx).count() > 1 || w.iter().filter(|&&x| x == mn).count() > 1
}
pub fn has_both_zeros(w: &[f64]) -> bool {
	w.iter().any(|x| *x == 0.0 && x.is_sign_negative()) && w.iter().any(|x| *x == 0.0 && x.is_sign_positive())
}
