//! Reference models: naive from-scratch evaluation of the documented formulas in f64.
//! Nothing in here calls `yata::methods` or `yata::indicators`.

pub mod sel;
pub mod win;

/// The last `n` entries of the padded history ending at position `t` (inclusive), oldest
/// first. Positions before the start of the stream hold the construction value.
pub fn window(xs: &[f64], init: f64, t: usize, n: usize) -> Vec<f64> {
	let mut w = Vec::with_capacity(n);
	for k in 0..n {
		// element with age n-1-k
		let age = n - 1 - k;
		w.push(if age > t { init } else { xs[t - age] });
	}
	w
}

/// value `age` steps before position t in the padded history
#[inline]
pub fn at(xs: &[f64], init: f64, t: usize, age: usize) -> f64 {
	if age > t {
		init
	} else {
		xs[t - age]
	}
}
