use yverif::engine::{self, Tier};

fn usage() -> ! {
	eprintln!("usage: yverif run <Cxx> <quick|thorough> [--only <check>]\n       yverif replay <Cxx> <file>\n       yverif list");
	std::process::exit(2)
}

fn main() {
	engine::install_panic_hook();
	let args: Vec<String> = std::env::args().collect();
	if args.len() < 2 {
		usage();
	}
	let seed: u64 = std::env::var("VERIF_SEED").ok().and_then(|s| s.trim().parse::<i128>().ok()).map(|v| v as u64).unwrap_or(20260926);
	match args[1].as_str() {
		"list" => {
			for id in yverif::props::ALL {
				println!("{id}");
			}
		}
		"run" => {
			if args.len() < 4 {
				usage();
			}
			let tier = match args[3].as_str() {
				"quick" => Tier::Quick,
				"thorough" => Tier::Thorough,
				_ => usage(),
			};
			let only = args.iter().position(|a| a == "--only").and_then(|i| args.get(i + 1)).map(|s| s.as_str());
			let Some(def) = yverif::props::property(&args[2], tier) else {
				eprintln!("unknown property {}", args[2]);
				std::process::exit(2)
			};
			let write_evidence = !args.iter().any(|a| a == "--no-evidence");
			std::process::exit(engine::run_property(def, tier, seed, only, write_evidence));
		}
		"transcript" => {
			// transcript <seed> <chunk> <count> <max_len>
			let a: Vec<u64> = args[2..].iter().filter_map(|x| x.parse().ok()).collect();
			if a.len() < 4 {
				usage();
			}
			yverif::transcript::print_transcript(a[0], a[1], a[2] as usize, a[3] as usize);
		}
		"trace-one" => {
			let text = std::fs::read_to_string(&args[2]).unwrap_or_default();
			match serde_json::from_str::<yverif::transcript::Program>(&text) {
				Ok(p) => println!("{}", p.trace().line()),
				Err(e) => {
					eprintln!("cannot decode program: {e}");
					std::process::exit(2)
				}
			}
		}
		"fuzz-replay" => {
			// fuzz-replay <target> <file>...
			let mut bad = 0;
			for f in &args[3..] {
				let data = std::fs::read(f).unwrap_or_default();
				if let Err(fl) = yverif::fuzz_entry::run_target(&args[2], &data) {
					println!("FAIL {} [{}] {}", f, fl.sig, fl.msg);
					bad += 1;
				}
			}
			std::process::exit(if bad > 0 { 1 } else { 0 });
		}
		"replay" => {
			if args.len() < 4 {
				usage();
			}
			let Some(def) = yverif::props::property(&args[2], Tier::Quick) else {
				eprintln!("unknown property {}", args[2]);
				std::process::exit(2)
			};
			std::process::exit(engine::replay_file(def, &args[3]));
		}
		_ => usage(),
	}
}
