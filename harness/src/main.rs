use yverif::engine::{self, Tier};

fn usage() -> ! {
	eprintln!("usage: yverif run <Cxx> <quick|thorough> [--only <check>]\n       yverif replay <Cxx> <file>\n       yverif list");
	std::process::exit(2)
}

fn main() {
	engine::install_panic_hook();
	let args: Vec<String> = std::env::args().collect();
	if args.len() < 2 {
		usage();
	}
	let seed: u64 = std::env::var("VERIF_SEED").ok().and_then(|s| s.trim().parse::<i128>().ok()).map(|v| v as u64).unwrap_or(20260926);
	match args[1].as_str() {
		"list" => {
			for id in yverif::props::ALL {
				println!("{id}");
			}
		}
		"run" => {
			if args.len() < 4 {
				usage();
			}
			let tier = match args[3].as_str() {
				"quick" => Tier::Quick,
				"thorough" => Tier::Thorough,
				_ => usage(),
			};
			let only = args.iter().position(|a| a == "--only").and_then(|i| args.get(i + 1)).map(|s| s.as_str());
			let Some(def) = yverif::props::property(&args[2], tier) else {
				eprintln!("unknown property {}", args[2]);
				std::process::exit(2)
			};
			std::process::exit(engine::run_property(def, tier, seed, only));
		}
		"replay" => {
			if args.len() < 4 {
				usage();
			}
			let Some(def) = yverif::props::property(&args[2], Tier::Quick) else {
				eprintln!("unknown property {}", args[2]);
				std::process::exit(2)
			};
			std::process::exit(engine::replay_file(def, &args[3]));
		}
		_ => usage(),
	}
}
