//! Check engine: sub-check registry, proptest driver, panic capture, known findings,
//! replay files and evidence.

use proptest::strategy::{Strategy, ValueTree};
use proptest::test_runner::{Config, RngAlgorithm, RngSeed, TestRunner};
use serde::{de::DeserializeOwned, Serialize};
use serde_json::{json, Value};
use std::cell::RefCell;
use std::collections::{BTreeMap, HashSet};
use std::fmt::Debug;
use std::panic::{catch_unwind, AssertUnwindSafe};
use std::path::{Path, PathBuf};
use std::sync::atomic::{AtomicUsize, Ordering};
use std::sync::Mutex;
use std::time::Instant;

pub const VERIF_DIR: &str = "/verif";

#[derive(Clone, Copy, Debug, PartialEq, Eq)]
pub enum Tier {
	Quick,
	Thorough,
}
impl Tier {
	pub fn name(self) -> &'static str {
		match self {
			Tier::Quick => "quick",
			Tier::Thorough => "thorough",
		}
	}
	/// pick by tier
	pub fn pick<T>(self, q: T, t: T) -> T {
		match self {
			Tier::Quick => q,
			Tier::Thorough => t,
		}
	}
}

#[derive(Clone, Debug)]
pub struct Failure {
	/// specific signature: used to match known findings
	pub sig: String,
	pub msg: String,
}
impl Failure {
	pub fn new(sig: impl Into<String>, msg: impl Into<String>) -> Self {
		Self { sig: sig.into(), msg: msg.into() }
	}
}
pub type CaseResult = Result<(), Failure>;

#[macro_export]
macro_rules! fail {
	($sig:expr, $($arg:tt)*) => {
		return Err($crate::engine::Failure::new($sig, format!($($arg)*)))
	};
}
#[macro_export]
macro_rules! ensure {
	($cond:expr, $sig:expr, $($arg:tt)*) => {
		if !($cond) {
			return Err($crate::engine::Failure::new($sig, format!($($arg)*)));
		}
	};
}

// ------------------------------------------------------------------------------------------
// panic capture

thread_local! {
	static LAST_PANIC: RefCell<Option<(String, String)>> = const { RefCell::new(None) };
	static QUIET: RefCell<bool> = const { RefCell::new(false) };
}

pub fn install_panic_hook() {
	let default = std::panic::take_hook();
	std::panic::set_hook(Box::new(move |info| {
		let loc = info
			.location()
			.map(|l| {
				let f = l.file();
				// keep the path relative to the crate (src/...)
				let f = f.rfind("src/").map_or(f, |i| &f[i..]);
				format!("{}:{}", f, l.line())
			})
			.unwrap_or_else(|| "?".into());
		let msg = if let Some(s) = info.payload().downcast_ref::<&str>() {
			(*s).to_string()
		} else if let Some(s) = info.payload().downcast_ref::<String>() {
			s.clone()
		} else {
			"<non-string panic>".to_string()
		};
		let quiet = QUIET.with(|q| *q.borrow());
		if quiet {
			LAST_PANIC.with(|p| *p.borrow_mut() = Some((loc, msg)));
		} else {
			default(info);
		}
	}));
}

/// Panic description: (location "src/core/window.rs:77", message)
#[derive(Clone, Debug)]
pub struct PanicInfo {
	pub loc: String,
	pub msg: String,
}
impl PanicInfo {
	/// location without line number + message with digits normalised: stable signature
	pub fn sig(&self) -> String {
		let file = self.loc.split(':').next().unwrap_or("?");
		let mut m = String::new();
		let mut last_digit = false;
		for ch in self.msg.chars().take(80) {
			if ch.is_ascii_digit() {
				if !last_digit {
					m.push('#');
				}
				last_digit = true;
			} else {
				last_digit = false;
				m.push(ch);
			}
		}
		format!("panic@{}:{}", file, m)
	}
}

/// Run `f`, catching a panic (silently) and describing it.
pub fn catch<R>(f: impl FnOnce() -> R) -> Result<R, PanicInfo> {
	let prev = QUIET.with(|q| std::mem::replace(&mut *q.borrow_mut(), true));
	LAST_PANIC.with(|p| *p.borrow_mut() = None);
	let r = catch_unwind(AssertUnwindSafe(f));
	QUIET.with(|q| *q.borrow_mut() = prev);
	match r {
		Ok(v) => Ok(v),
		Err(_) => {
			let (loc, msg) = LAST_PANIC
				.with(|p| p.borrow_mut().take())
				.unwrap_or_else(|| ("?".into(), "?".into()));
			Err(PanicInfo { loc, msg })
		}
	}
}

/// Run a case body; a panic becomes a failure with a panic signature.
pub fn guarded(f: impl FnOnce() -> CaseResult) -> CaseResult {
	match catch(f) {
		Ok(r) => r,
		Err(p) => Err(Failure::new(p.sig(), format!("panic at {}: {}", p.loc, p.msg))),
	}
}

// ------------------------------------------------------------------------------------------
// statistics

#[derive(Default, Debug)]
pub struct Stats {
	pub evals: u64,
	pub nontrivial: HashSet<u64>,
	/// cases that are non-trivial and distinct BY CONSTRUCTION (exhaustive enumerations), counted not hashed
	pub nontrivial_bulk: u64,
	pub classes: BTreeMap<String, u64>,
	pub counters: BTreeMap<String, u64>,
	/// named sets of small integers (e.g. lengths hit); reported by size
	pub sets: BTreeMap<String, std::collections::BTreeSet<u64>>,
	pub samples: Vec<Value>,
	pub max_ratio: f64,
	pub excluded_known: u64,
	/// set when counting must stop (shrinking in progress)
	pub frozen: bool,
	sample_classes: HashSet<String>,
}

impl Stats {
	pub fn class(&mut self, name: &str) {
		if !self.frozen {
			*self.classes.entry(name.to_string()).or_insert(0) += 1;
		}
	}
	pub fn count(&mut self, name: &str, n: u64) {
		if !self.frozen {
			*self.counters.entry(name.to_string()).or_insert(0) += n;
		}
	}
	pub fn set_add(&mut self, name: &str, v: u64) {
		if !self.frozen {
			self.sets.entry(name.to_string()).or_default().insert(v);
		}
	}
	pub fn nontrivial(&mut self, fingerprint: u64) {
		if !self.frozen {
			self.nontrivial.insert(fingerprint);
		}
	}
	pub fn nontrivial_bulk(&mut self, n: u64) {
		if !self.frozen {
			self.nontrivial_bulk += n;
		}
	}
	pub fn nontrivial_len(&self) -> u64 {
		self.nontrivial.len() as u64 + self.nontrivial_bulk
	}
	pub fn ratio(&mut self, r: f64) {
		if !self.frozen && r.is_finite() && r > self.max_ratio {
			self.max_ratio = r;
		}
	}
	/// keep the first case of each class as a sample (bounded)
	pub fn sample(&mut self, class: &str, v: impl FnOnce() -> Value) {
		if self.frozen || self.samples.len() >= 6 || self.sample_classes.contains(class) {
			return;
		}
		self.sample_classes.insert(class.to_string());
		let mut val = v();
		truncate_value(&mut val, 24);
		self.samples.push(json!({"class": class, "case": val}));
	}
	fn merge(&mut self, o: Stats, prefix: &str) {
		self.evals += o.evals;
		self.nontrivial_bulk += o.nontrivial_bulk;
		for h in o.nontrivial {
			self.nontrivial.insert(h ^ fnv(prefix.as_bytes()));
		}
		for (k, v) in o.classes {
			*self.classes.entry(format!("{prefix}/{k}")).or_insert(0) += v;
		}
		for (k, v) in o.counters {
			*self.counters.entry(k).or_insert(0) += v;
		}
		for (k, v) in o.sets {
			self.sets.entry(format!("{prefix}/{k}")).or_default().extend(v);
		}
		for s in o.samples {
			if self.samples.len() < 24 {
				let mut s = s;
				if let Value::Object(m) = &mut s {
					m.insert("check".into(), json!(prefix));
				}
				self.samples.push(s);
			}
		}
		if o.max_ratio > self.max_ratio {
			self.max_ratio = o.max_ratio;
		}
		self.excluded_known += o.excluded_known;
	}
}

fn truncate_value(v: &mut Value, max: usize) {
	match v {
		Value::Array(a) => {
			if a.len() > max {
				let n = a.len();
				a.truncate(max);
				a.push(json!(format!("... ({} elements in total)", n)));
			}
			for x in a.iter_mut() {
				truncate_value(x, max);
			}
		}
		Value::Object(m) => {
			for (_, x) in m.iter_mut() {
				truncate_value(x, max);
			}
		}
		_ => {}
	}
}

pub fn fnv(bytes: &[u8]) -> u64 {
	let mut h: u64 = 0xcbf29ce484222325;
	for b in bytes {
		h ^= *b as u64;
		h = h.wrapping_mul(0x100000001b3);
	}
	h
}
pub fn fnv_f64s(xs: &[f64]) -> u64 {
	let mut h: u64 = 0xcbf29ce484222325;
	for x in xs {
		for b in x.to_bits().to_le_bytes() {
			h ^= b as u64;
			h = h.wrapping_mul(0x100000001b3);
		}
	}
	h
}
pub fn mix(a: u64, b: u64) -> u64 {
	let mut x = a ^ b.wrapping_mul(0x9E3779B97F4A7C15);
	x ^= x >> 30;
	x = x.wrapping_mul(0xBF58476D1CE4E5B9);
	x ^= x >> 27;
	x = x.wrapping_mul(0x94D049BB133111EB);
	x ^ (x >> 31)
}

// ------------------------------------------------------------------------------------------
// known findings

#[derive(Clone, Debug)]
pub struct Known {
	pub property: String,
	pub sig: String,
	pub replay: String,
	pub what: String,
}

/// File format (committed, never written at run time), one entry per line:
///   known: property=<id> replay=<path relative to /verif> sig=<signature> :: <what fails>
///   fixed: property=<id> <commit> <what failed>
pub fn load_known(property: &str) -> Vec<Known> {
	let path = Path::new(VERIF_DIR).join("known_findings.txt");
	let text = std::fs::read_to_string(path).unwrap_or_default();
	let mut out = Vec::new();
	for line in text.lines() {
		let line = line.trim();
		let Some(rest) = line.strip_prefix("known:") else { continue };
		let (head, what) = rest.split_once(" :: ").unwrap_or((rest, ""));
		let head = head.trim();
		let mut prop = "";
		let mut replay = "";
		let mut sig = "";
		if let Some(i) = head.find("sig=") {
			sig = head[i + 4..].trim();
			for tok in head[..i].split_whitespace() {
				if let Some(v) = tok.strip_prefix("property=") {
					prop = v;
				}
				if let Some(v) = tok.strip_prefix("replay=") {
					replay = v;
				}
			}
		}
		if prop == property {
			out.push(Known {
				property: prop.into(),
				sig: sig.into(),
				replay: replay.into(),
				what: what.trim().into(),
			});
		}
	}
	out
}

pub fn sig_matches(pattern: &str, sig: &str) -> bool {
	if let Some(p) = pattern.strip_suffix('*') {
		sig.starts_with(p)
	} else {
		pattern == sig
	}
}

// ------------------------------------------------------------------------------------------
// sub-checks

pub struct RunCfg {
	pub property: String,
	pub tier: Tier,
	pub seed: u64,
	pub known: Vec<Known>,
}
impl RunCfg {
	pub fn is_known(&self, sig: &str) -> bool {
		self.known.iter().any(|k| sig_matches(&k.sig, sig))
	}
}

pub struct Violation {
	pub check: String,
	pub failure: Failure,
	pub case: Value,
}

pub trait SubCheck: Send + Sync {
	fn name(&self) -> String;
	/// generate / enumerate and test; returns the first (minimised) violation
	fn run(&self, cfg: &RunCfg, stats: &mut Stats) -> Option<Violation>;
	/// re-execute one stored case without the generator library
	fn replay(&self, case: &Value, stats: &mut Stats) -> CaseResult;
}

type TestFn<T> = Box<dyn Fn(&T, &mut Stats) -> CaseResult + Send + Sync>;

/// proptest-driven sub-check
pub struct PtCheck<T, S> {
	name: String,
	strategy: S,
	cases: u32,
	test: TestFn<T>,
}

pub fn pt<T, S>(
	name: &str,
	cases: u32,
	strategy: S,
	test: impl Fn(&T, &mut Stats) -> CaseResult + Send + Sync + 'static,
) -> Box<dyn SubCheck>
where
	T: Serialize + DeserializeOwned + Debug + Clone + 'static,
	S: Strategy<Value = T> + Send + Sync + 'static,
{
	Box::new(PtCheck { name: name.to_string(), strategy, cases, test: Box::new(test) })
}

impl<T, S> SubCheck for PtCheck<T, S>
where
	T: Serialize + DeserializeOwned + Debug + Clone + 'static,
	S: Strategy<Value = T> + Send + Sync + 'static,
{
	fn name(&self) -> String {
		self.name.clone()
	}

	fn run(&self, cfg: &RunCfg, stats: &mut Stats) -> Option<Violation> {
		let seed = mix(cfg.seed, fnv(self.name.as_bytes()));
		let mut seed_bytes = [0u8; 32];
		for i in 0..4 {
			seed_bytes[i * 8..(i + 1) * 8].copy_from_slice(&mix(seed, i as u64).to_le_bytes());
		}
		let config = Config {
			cases: self.cases,
			failure_persistence: None,
			max_shrink_iters: 4000,
			max_global_rejects: 1 << 30,
			rng_seed: RngSeed::Fixed(seed),
			..Config::default()
		};
		let rng = proptest::test_runner::TestRng::from_seed(RngAlgorithm::ChaCha, &seed_bytes);
		let mut runner = TestRunner::new_with_rng(config, rng);
		// manual loop: keeps control over counting and shrinking
		for _ in 0..self.cases {
			let mut tree = match self.strategy.new_tree(&mut runner) {
				Ok(t) => t,
				Err(_) => continue,
			};
			let v = tree.current();
			stats.evals += 1;
			let r = guarded(|| (self.test)(&v, stats));
			let Err(f) = r else { continue };
			if cfg.is_known(&f.sig) {
				stats.excluded_known += 1;
				continue;
			}
			if std::env::var("VERIF_COLLECT").is_ok() {
				let key = format!("sig:{}", f.sig);
				if !stats.counters.contains_key(&key) {
					eprintln!("COLLECT {} :: {}", f.sig, f.msg);
				}
				stats.count(&key, 1);
				continue;
			}
			// shrink (proptest's own simplify/complicate protocol)
			stats.frozen = true;
			let mut best = (v, f);
			let mut iters = 0;
			if tree.simplify() {
				loop {
					iters += 1;
					if iters > 4000 {
						break;
					}
					let cand = tree.current();
					let r = guarded(|| (self.test)(&cand, stats));
					match r {
						Err(f) if !cfg.is_known(&f.sig) => {
							best = (cand, f);
							if !tree.simplify() {
								break;
							}
						}
						_ => {
							if !tree.complicate() {
								break;
							}
						}
					}
				}
			}
			stats.frozen = false;
			let (case, failure) = best;
			return Some(Violation {
				check: self.name.clone(),
				failure,
				case: serde_json::to_value(&case).unwrap_or(Value::Null),
			});
		}
		None
	}

	fn replay(&self, case: &Value, stats: &mut Stats) -> CaseResult {
		let v: T = serde_json::from_value(case.clone())
			.map_err(|e| Failure::new("replay-decode", format!("cannot decode case: {e}")))?;
		stats.evals += 1;
		guarded(|| (self.test)(&v, stats))
	}
}

/// enumeration-driven sub-check (no shrinking; the enumeration order is smallest-first)
pub struct EnumCheck<T> {
	name: String,
	gen: Box<dyn Fn(Tier, u64) -> Box<dyn Iterator<Item = T>> + Send + Sync>,
	test: TestFn<T>,
}

pub fn enumerate<T>(
	name: &str,
	gen: impl Fn(Tier, u64) -> Box<dyn Iterator<Item = T>> + Send + Sync + 'static,
	test: impl Fn(&T, &mut Stats) -> CaseResult + Send + Sync + 'static,
) -> Box<dyn SubCheck>
where
	T: Serialize + DeserializeOwned + Debug + Clone + 'static,
{
	Box::new(EnumCheck { name: name.to_string(), gen: Box::new(gen), test: Box::new(test) })
}

impl<T> SubCheck for EnumCheck<T>
where
	T: Serialize + DeserializeOwned + Debug + Clone + 'static,
{
	fn name(&self) -> String {
		self.name.clone()
	}
	fn run(&self, cfg: &RunCfg, stats: &mut Stats) -> Option<Violation> {
		for v in (self.gen)(cfg.tier, cfg.seed) {
			stats.evals += 1;
			let r = guarded(|| (self.test)(&v, stats));
			if let Err(f) = r {
				if cfg.is_known(&f.sig) {
					stats.excluded_known += 1;
					continue;
				}
				if std::env::var("VERIF_COLLECT").is_ok() {
					// development aid: list every distinct signature instead of stopping at the first
					let key = format!("sig:{}", f.sig);
					if !stats.counters.contains_key(&key) {
						eprintln!("COLLECT {} :: {}", f.sig, f.msg);
					}
					stats.count(&key, 1);
					continue;
				}
				return Some(Violation {
					check: self.name.clone(),
					failure: f,
					case: serde_json::to_value(&v).unwrap_or(Value::Null),
				});
			}
		}
		None
	}
	fn replay(&self, case: &Value, stats: &mut Stats) -> CaseResult {
		let v: T = serde_json::from_value(case.clone())
			.map_err(|e| Failure::new("replay-decode", format!("cannot decode case: {e}")))?;
		stats.evals += 1;
		guarded(|| (self.test)(&v, stats))
	}
}

// ------------------------------------------------------------------------------------------
// property-level driver

pub struct PropertyDef {
	pub id: &'static str,
	pub level: &'static str,
	pub rule: &'static str,
	pub assumptions: Vec<String>,
	pub exhaustive: bool,
	pub checks: Vec<Box<dyn SubCheck>>,
}

fn write_replay(property: &str, v: &Violation) -> PathBuf {
	let dir = Path::new(VERIF_DIR).join("replays");
	let _ = std::fs::create_dir_all(&dir);
	let body = json!({
		"property": property,
		"check": v.check,
		"signature": v.failure.sig,
		"message": v.failure.msg,
		"case": v.case,
	});
	let text = serde_json::to_string_pretty(&body).unwrap();
	let fp = fnv(serde_json::to_string(&v.case).unwrap_or_default().as_bytes()) ^ fnv(v.check.as_bytes());
	let path = dir.join(format!("{}-{}-{:012x}.json", property, sanitize(&v.check), fp & 0xffff_ffff_ffff));
	let _ = std::fs::write(&path, text);
	path
}

fn sanitize(s: &str) -> String {
	s.chars().map(|c| if c.is_ascii_alphanumeric() { c } else { '_' }).collect()
}

pub struct Outcome {
	pub violations: usize,
	pub known_printed: usize,
}

/// Replays every committed regression input of the property. Known findings that still
/// reproduce are announced; anything else that fails is a violation.
fn replay_regress(def: &PropertyDef, cfg: &RunCfg, stats: &mut Stats, out: &mut Vec<String>) -> usize {
	let mut violations = 0;
	let dir = Path::new(VERIF_DIR).join("regress").join(def.id);
	let mut files: Vec<PathBuf> = std::fs::read_dir(&dir)
		.map(|rd| rd.filter_map(|e| e.ok().map(|e| e.path())).collect())
		.unwrap_or_default();
	files.sort();
	let mut announced: HashSet<String> = HashSet::new();
	for f in files {
		if f.extension().and_then(|e| e.to_str()) != Some("json") {
			continue;
		}
		let rel = f.strip_prefix(VERIF_DIR).unwrap_or(&f).to_string_lossy().to_string();
		let Ok(text) = std::fs::read_to_string(&f) else { continue };
		let Ok(body) = serde_json::from_str::<Value>(&text) else {
			eprintln!("regress file {} is not JSON", f.display());
			continue;
		};
		let check = body["check"].as_str().unwrap_or("");
		let Some(sc) = def.checks.iter().find(|c| c.name() == check) else {
			eprintln!("regress file {}: unknown check {:?}", f.display(), check);
			continue;
		};
		let mut st = Stats::default();
		let r = sc.replay(&body["case"], &mut st);
		stats.count("regress_replayed", 1);
		match r {
			Ok(()) => {}
			Err(fl) => {
				if let Some(k) = cfg.known.iter().find(|k| sig_matches(&k.sig, &fl.sig)) {
					stats.count("regress_known_reproduced", 1);
					if announced.insert(k.sig.clone()) {
						out.push(format!("KNOWN-FINDING: property={} {} [sig={}]", def.id, k.what, k.sig));
					}
				} else {
					violations += 1;
					out.push(format!("VIOLATION property={} replay={}", def.id, rel));
					out.push(format!("  regression input fails: [{}] {}", fl.sig, fl.msg));
				}
			}
		}
	}
	violations
}

pub fn run_property(def: PropertyDef, tier: Tier, seed: u64, only: Option<&str>, write_evidence: bool) -> i32 {
	let t0 = Instant::now();
	let cfg = RunCfg { property: def.id.to_string(), tier, seed, known: load_known(def.id) };
	let mut total = Stats::default();
	let mut lines: Vec<String> = Vec::new();
	let mut violations = replay_regress(&def, &cfg, &mut total, &mut lines);

	let n = def.checks.len();
	let next = AtomicUsize::new(0);
	let results: Mutex<Vec<(usize, Stats, Option<Violation>, f64)>> = Mutex::new(Vec::new());
	let threads = std::thread::available_parallelism().map(|x| x.get()).unwrap_or(8).min(n.max(1));
	std::thread::scope(|s| {
		for _ in 0..threads {
			s.spawn(|| loop {
				let i = next.fetch_add(1, Ordering::SeqCst);
				if i >= n {
					break;
				}
				let sc = &def.checks[i];
				if let Some(o) = only {
					// exact name, or a prefix written as `prefix*`
					let hit = match o.strip_suffix('*') {
						Some(pre) => sc.name().starts_with(pre),
						None => sc.name() == o,
					};
					if !hit {
						continue;
					}
				}
				let t = Instant::now();
				let mut st = Stats::default();
				let v = sc.run(&cfg, &mut st);
				results.lock().unwrap().push((i, st, v, t.elapsed().as_secs_f64()));
			});
		}
	});
	let mut results = results.into_inner().unwrap();
	results.sort_by_key(|r| r.0);
	let mut per_check = Vec::new();
	for (i, st, v, secs) in results {
		let name = def.checks[i].name();
		per_check.push(json!({
			"check": name, "evaluations": st.evals, "distinct_nontrivial": st.nontrivial_len(),
			"excluded_known": st.excluded_known, "max_allowance_ratio": st.max_ratio, "wall_s": (secs*1000.0).round()/1000.0,
		}));
		if let Some(v) = v {
			violations += 1;
			let path = write_replay(def.id, &v);
			lines.push(format!("VIOLATION property={} replay={}", def.id, path.display()));
			lines.push(format!("  check={} [{}] {}", v.check, v.failure.sig, v.failure.msg));
		}
		total.merge(st, &name);
	}
	for l in &lines {
		println!("{l}");
	}
	let wall = t0.elapsed().as_secs_f64();
	let mut coverage = json!({
		"evaluations": total.evals,
		"distinct_nontrivial": total.nontrivial_len(),
		"rule": def.rule,
		"samples": total.samples,
		"classes": total.classes,
		"counters": total.counters,
		"distinct_values_hit": total.sets.iter().map(|(k, v)| (k.clone(), v.len())).collect::<BTreeMap<String, usize>>(),
		"excluded_known": total.excluded_known,
		"max_allowance_ratio": total.max_ratio,
		"per_check": per_check,
	});
	if def.exhaustive {
		coverage["exhaustive"] = json!(true);
	}
	// libFuzzer campaign summary written by /verif/check for this run (thorough tier)
	let fz = Path::new(VERIF_DIR).join("harness/.run").join(format!("fuzz_summary_{}.json", def.id));
	if let Ok(text) = std::fs::read_to_string(&fz) {
		if let Ok(v) = serde_json::from_str::<Value>(&text) {
			coverage["fuzz_campaigns"] = v;
		}
	}
	let evidence = json!({
		"property_id": def.id,
		"tier": tier.name(),
		"seed": seed,
		"level": def.level,
		"coverage": coverage,
		"assumptions": def.assumptions,
		"wall_s": (wall * 1000.0).round() / 1000.0,
		"violations": violations,
	});
	if only.is_none() && write_evidence {
		let dir = Path::new(VERIF_DIR).join("evidence");
		let _ = std::fs::create_dir_all(&dir);
		let _ = std::fs::write(
			dir.join(format!("{}.json", def.id)),
			serde_json::to_string_pretty(&evidence).unwrap(),
		);
	}
	println!(
		"{} {} seed={} evaluations={} distinct_nontrivial={} excluded_known={} max_ratio={:.3} violations={} wall={:.1}s",
		def.id,
		tier.name(),
		seed,
		total.evals,
		total.nontrivial_len(),
		total.excluded_known,
		total.max_ratio,
		violations,
		wall
	);
	if violations > 0 {
		1
	} else {
		0
	}
}

pub fn replay_file(def: PropertyDef, path: &str) -> i32 {
	let cfg = RunCfg { property: def.id.to_string(), tier: Tier::Quick, seed: 0, known: load_known(def.id) };
	let text = match std::fs::read_to_string(path) {
		Ok(t) => t,
		Err(e) => {
			eprintln!("cannot read {path}: {e}");
			return 2;
		}
	};
	let body: Value = match serde_json::from_str(&text) {
		Ok(b) => b,
		Err(e) => {
			eprintln!("cannot parse {path}: {e}");
			return 2;
		}
	};
	let check = body["check"].as_str().unwrap_or("");
	let Some(sc) = def.checks.iter().find(|c| c.name() == check) else {
		eprintln!("unknown check {check:?} for {}", def.id);
		return 2;
	};
	let mut st = Stats::default();
	match sc.replay(&body["case"], &mut st) {
		Ok(()) => {
			println!("replay {}: case passes", path);
			0
		}
		Err(f) => {
			if let Some(k) = cfg.known.iter().find(|k| sig_matches(&k.sig, &f.sig)) {
				println!("KNOWN-FINDING: property={} {} [sig={}]", def.id, k.what, k.sig);
				println!("  {}", f.msg);
				0
			} else {
				println!("VIOLATION property={} replay={}", def.id, path);
				println!("  check={} [{}] {}", check, f.sig, f.msg);
				1
			}
		}
	}
}

/// prefix of at most `n` bytes that ends on a char boundary (generated texts are arbitrary UTF-8)
pub fn clip(s: &str, n: usize) -> &str {
	if s.len() <= n {
		return s;
	}
	let mut k = n;
	while !s.is_char_boundary(k) {
		k -= 1;
	}
	&s[..k]
}
