//! Uniform, type-erased access to every method of `yata::methods` (plus the `MA` enum):
//! construct from serializable parameters, feed, peek, clone, serialize, deserialize.

use crate::gen::C5;
use serde::{de::DeserializeOwned, Deserialize, Serialize};
use yata::core::{Action, Candle, Error, Method, MovingAverageConstructor, PeriodType, Source, ValueType};
use yata::helpers::{MAInstance, Peekable, MA};
use yata::methods::*;

#[derive(Serialize, Deserialize, Clone, Copy, Debug, PartialEq)]
pub enum In {
	V(f64),
	P(f64, f64),
	C(C5),
}

#[derive(Clone, Debug, PartialEq)]
pub enum Out {
	V(ValueType),
	A(Action),
	I(u64),
	C(Candle),
	OC(Option<Candle>),
	/// renko blocks (open, close, volume)
	R(Vec<[ValueType; 3]>),
}

impl Out {
	/// every returned bit
	pub fn bits(&self) -> Vec<u64> {
		let f = |x: ValueType| (x as f64).to_bits();
		match self {
			Out::V(x) => vec![f(*x)],
			Out::A(a) => vec![match a {
				Action::None => 1 << 20,
				Action::Buy(k) => 2 << 20 | *k as u64,
				Action::Sell(k) => 3 << 20 | *k as u64,
			}],
			Out::I(i) => vec![*i],
			Out::C(c) => vec![f(c.open), f(c.high), f(c.low), f(c.close), f(c.volume)],
			Out::OC(None) => vec![0],
			Out::OC(Some(c)) => vec![1, f(c.open), f(c.high), f(c.low), f(c.close), f(c.volume)],
			Out::R(b) => {
				let mut v = vec![b.len() as u64];
				for x in b {
					v.extend(x.iter().map(|y| f(*y)));
				}
				v
			}
		}
	}
	/// float components, for approximate comparison (None for non-float outputs)
	pub fn floats(&self) -> Option<Vec<f64>> {
		match self {
			Out::V(x) => Some(vec![*x as f64]),
			Out::C(c) => Some(vec![c.open as f64, c.high as f64, c.low as f64, c.close as f64, c.volume as f64]),
			_ => None,
		}
	}
	pub fn same_bits(&self, o: &Out) -> bool {
		self.bits() == o.bits()
	}
}

pub trait DynMethod: Send {
	fn next(&mut self, x: &In) -> Out;
	fn peek(&self) -> Option<Out>;
	fn to_json(&self) -> Result<String, String>;
	fn restore(&self, json: &str) -> Result<Box<dyn DynMethod>, String>;
	fn clone_box(&self) -> Box<dyn DynMethod>;
}

#[derive(Clone, Copy, Debug, PartialEq, Eq)]
pub enum InKind {
	V,
	P,
	C,
}

#[derive(Serialize, Deserialize, Clone, Debug, PartialEq)]
pub enum MParams {
	Len(u64),
	Pair(u64, u64),
	Weights(Vec<f64>),
	Unit,
	Renko(f64, u8),
	Collapse(usize),
}

#[derive(Clone, Copy, Debug, PartialEq, Eq)]
pub enum ParamKind {
	/// single length, valid range min..=max
	Len(u32, u32),
	/// (short, long) of TSI: each 1..=254
	TsiPair,
	/// (left, right): both >= 1, left + right <= 253
	RevPair,
	Weights,
	Unit,
	Renko,
	Collapse,
}

#[derive(Clone, Copy, Debug, PartialEq, Eq)]
pub enum Nature {
	/// floating-point arithmetic result
	Arith,
	/// exact selection / signal / position / candle converter without arithmetic state
	Exact,
}

pub struct MethodKind {
	pub name: &'static str,
	pub input: InKind,
	pub params: ParamKind,
	pub nature: Nature,
	pub has_peek: bool,
	/// cumulative or counting: exempt from the constant-prehistory property when window-less
	pub cumulative_when_zero: bool,
	pub make: fn(&MParams, &In) -> Result<Box<dyn DynMethod>, Error>,
}

pub const SOURCES: [Source; 8] = [Source::Close, Source::Open, Source::High, Source::Low, Source::HL2, Source::TP, Source::Volume, Source::VolumedPrice];

fn bad() -> Error {
	Error::Other("harness: parameter/input kind mismatch".into())
}

fn len_of(p: &MParams) -> Result<PeriodType, Error> {
	match p {
		MParams::Len(n) if *n <= PeriodType::MAX as u64 => Ok(*n as PeriodType),
		_ => Err(bad()),
	}
}
fn pair_of(p: &MParams) -> Result<(PeriodType, PeriodType), Error> {
	match p {
		MParams::Pair(a, b) if *a <= PeriodType::MAX as u64 && *b <= PeriodType::MAX as u64 => Ok((*a as PeriodType, *b as PeriodType)),
		_ => Err(bad()),
	}
}

struct W<M, const K: u8>(M);

// input adapters ------------------------------------------------------------------------
fn in_v(x: &In) -> ValueType {
	match x {
		In::V(v) => *v as ValueType,
		In::P(a, _) => *a as ValueType,
		In::C(c) => c.c as ValueType,
	}
}
fn in_p(x: &In) -> (ValueType, ValueType) {
	match x {
		In::P(a, b) => (*a as ValueType, *b as ValueType),
		In::V(v) => (*v as ValueType, *v as ValueType),
		In::C(c) => (c.c as ValueType, c.v as ValueType),
	}
}
fn in_c(x: &In) -> Candle {
	match x {
		In::C(c) => c.candle(),
		In::V(v) => Candle { open: *v as ValueType, high: *v as ValueType, low: *v as ValueType, close: *v as ValueType, volume: 1.0 },
		In::P(a, b) => Candle { open: *a as ValueType, high: *a as ValueType, low: *a as ValueType, close: *a as ValueType, volume: *b as ValueType },
	}
}

macro_rules! dyn_impl {
	// $inp: adapter expression from &In to the method input (by value), $out: closure output -> Out, $peek: expr
	($k:literal, $ty:ty, |$x:ident| $inp:expr, |$o:ident| $out:expr, peek: $has:tt) => {
		impl DynMethod for W<$ty, $k> {
			fn next(&mut self, $x: &In) -> Out {
				let v = $inp;
				let $o = self.0.next(&v);
				$out
			}
			fn peek(&self) -> Option<Out> {
				dyn_impl!(@peek self, $has, |$o| $out)
			}
			fn to_json(&self) -> Result<String, String> {
				serde_json::to_string(&self.0).map_err(|e| e.to_string())
			}
			fn restore(&self, json: &str) -> Result<Box<dyn DynMethod>, String> {
				let m: $ty = serde_json::from_str(json).map_err(|e| e.to_string())?;
				Ok(Box::new(W::<$ty, $k>(m)))
			}
			fn clone_box(&self) -> Box<dyn DynMethod> {
				Box::new(W::<$ty, $k>(self.0.clone()))
			}
		}
	};
	(@peek $s:ident, yes, |$o:ident| $out:expr) => {{
		let $o = Peekable::peek(&$s.0);
		Some($out)
	}};
	(@peek $s:ident, no, |$o:ident| $out:expr) => {
		None
	};
}

// value -> value, with Peekable
macro_rules! vv_peek { ($($ty:ty),*) => { $( dyn_impl!(0, $ty, |x| in_v(x), |o| Out::V(o), peek: yes); )* } }
macro_rules! vv_nopeek { ($($ty:ty),*) => { $( dyn_impl!(0, $ty, |x| in_v(x), |o| Out::V(o), peek: no); )* } }

vv_peek!(SMA, WMA, EMA, DMA, TMA, DEMA, TEMA, WSMA, RMA, SMM, HMA, LinReg, SWMA, Conv, TRIMA, Integral, TSI, StDev, LinearVolatility, MeanAbsDev, MedianAbsDev, Vidya, Highest, Lowest, HighestLowestDelta, Past<ValueType>);
vv_nopeek!(Derivative, Momentum, RateOfChange, CCI, MAInstance);
dyn_impl!(0, VWMA, |x| in_p(x), |o| Out::V(o), peek: yes);
dyn_impl!(0, HighestIndex, |x| in_v(x), |o| Out::I(o as u64), peek: yes);
dyn_impl!(0, LowestIndex, |x| in_v(x), |o| Out::I(o as u64), peek: yes);
dyn_impl!(0, Cross, |x| in_p(x), |o| Out::A(o), peek: no);
dyn_impl!(0, CrossAbove, |x| in_p(x), |o| Out::A(o), peek: no);
dyn_impl!(0, CrossUnder, |x| in_p(x), |o| Out::A(o), peek: no);
dyn_impl!(0, ReversalSignal, |x| in_v(x), |o| Out::A(o), peek: no);
dyn_impl!(0, UpperReversalSignal, |x| in_v(x), |o| Out::A(o), peek: no);
dyn_impl!(0, LowerReversalSignal, |x| in_v(x), |o| Out::A(o), peek: no);
dyn_impl!(0, CollapseTimeframe<Candle>, |x| in_c(x), |o| Out::OC(o), peek: no);

// dyn OHLCV inputs need an explicit coercion
macro_rules! dyn_impl_c {
	($ty:ty, |$o:ident| $out:expr, peek: $has:tt) => {
		impl DynMethod for W<$ty, 1> {
			fn next(&mut self, x: &In) -> Out {
				let c = in_c(x);
				let $o = self.0.next(&c);
				$out
			}
			fn peek(&self) -> Option<Out> {
				dyn_impl!(@peek self, $has, |$o| $out)
			}
			fn to_json(&self) -> Result<String, String> {
				serde_json::to_string(&self.0).map_err(|e| e.to_string())
			}
			fn restore(&self, json: &str) -> Result<Box<dyn DynMethod>, String> {
				let m: $ty = serde_json::from_str(json).map_err(|e| e.to_string())?;
				Ok(Box::new(W::<$ty, 1>(m)))
			}
			fn clone_box(&self) -> Box<dyn DynMethod> {
				Box::new(W::<$ty, 1>(self.0.clone()))
			}
		}
	};
}
dyn_impl_c!(ADI, |o| Out::V(o), peek: yes);
dyn_impl_c!(TR, |o| Out::V(o), peek: no);
dyn_impl_c!(HeikinAshi, |o| Out::C(o), peek: no);
// at most the first 32 blocks are materialised (a tiny brick size yields astronomically many), plus the count
dyn_impl_c!(Renko, |o| Out::R({
	let n = o.len();
	let mut v: Vec<[ValueType; 3]> = o.take(32).map(|b| [b.open, b.close, b.volume]).collect();
	v.push([n as ValueType, 0.0, 0.0]);
	v
}), peek: no);

fn boxed<M, const K: u8>(m: M) -> Box<dyn DynMethod>
where
	W<M, K>: DynMethod + 'static,
{
	Box::new(W::<M, K>(m))
}

macro_rules! len_kind {
	($name:literal, $ty:ty, $min:expr, $max:expr, $nat:expr, $peek:expr) => {
		MethodKind {
			name: $name,
			input: InKind::V,
			params: ParamKind::Len($min, $max),
			nature: $nat,
			has_peek: $peek,
			cumulative_when_zero: false,
			make: |p, i| Ok(boxed::<$ty, 0>(<$ty as Method>::new(len_of(p)?, &in_v(i))?)),
		}
	};
}

pub fn ma_kind_names() -> [&'static str; 15] {
	["sma", "wma", "hma", "rma", "ema", "dma", "dema", "tma", "tema", "wsma", "smm", "swma", "trima", "linreg", "vidya"]
}

/// every method kind of the crate
pub fn kinds() -> Vec<MethodKind> {
	use Nature::*;
	let mut v = vec![
		len_kind!("SMA", SMA, 1, 254, Arith, true),
		len_kind!("WMA", WMA, 1, 254, Arith, true),
		len_kind!("EMA", EMA, 1, 254, Arith, true),
		len_kind!("DMA", DMA, 1, 254, Arith, true),
		len_kind!("TMA", TMA, 1, 254, Arith, true),
		len_kind!("DEMA", DEMA, 1, 254, Arith, true),
		len_kind!("TEMA", TEMA, 1, 254, Arith, true),
		len_kind!("WSMA", WSMA, 1, 127, Arith, true),
		len_kind!("RMA", RMA, 1, 254, Arith, true),
		len_kind!("SMM", SMM, 1, 254, Exact, true),
		len_kind!("HMA", HMA, 2, 254, Arith, true),
		len_kind!("LinReg", LinReg, 2, 254, Arith, true),
		len_kind!("SWMA", SWMA, 1, 254, Arith, true),
		len_kind!("TRIMA", TRIMA, 1, 254, Arith, true),
		len_kind!("Derivative", Derivative, 1, 254, Arith, false),
		len_kind!("Integral", Integral, 0, 254, Arith, true),
		len_kind!("Momentum", Momentum, 1, 254, Arith, false),
		len_kind!("RateOfChange", RateOfChange, 1, 254, Arith, false),
		len_kind!("StDev", StDev, 2, 254, Arith, true),
		len_kind!("LinearVolatility", LinearVolatility, 1, 254, Arith, true),
		len_kind!("CCI", CCI, 1, 254, Arith, false),
		len_kind!("MeanAbsDev", MeanAbsDev, 1, 254, Arith, true),
		len_kind!("MedianAbsDev", MedianAbsDev, 2, 254, Arith, true),
		len_kind!("Vidya", Vidya, 1, 254, Arith, true),
		len_kind!("Highest", Highest, 1, 254, Exact, true),
		len_kind!("Lowest", Lowest, 1, 254, Exact, true),
		len_kind!("HighestLowestDelta", HighestLowestDelta, 1, 254, Exact, true),
		len_kind!("HighestIndex", HighestIndex, 1, 254, Exact, true),
		len_kind!("LowestIndex", LowestIndex, 1, 254, Exact, true),
		len_kind!("Past", Past<ValueType>, 1, 254, Exact, true),
	];
	v.iter_mut().find(|k| k.name == "Integral").unwrap().cumulative_when_zero = true;
	v.push(MethodKind {
		name: "Conv",
		input: InKind::V,
		params: ParamKind::Weights,
		nature: Arith,
		has_peek: true,
		cumulative_when_zero: false,
		make: |p, i| match p {
			MParams::Weights(w) => Ok(boxed::<Conv, 0>(Conv::new(w.iter().map(|x| *x as ValueType).collect(), &in_v(i))?)),
			_ => Err(bad()),
		},
	});
	v.push(MethodKind { name: "VWMA", input: InKind::P, params: ParamKind::Len(1, 254), nature: Arith, has_peek: true, cumulative_when_zero: false, make: |p, i| Ok(boxed::<VWMA, 0>(VWMA::new(len_of(p)?, &in_p(i))?)) });
	v.push(MethodKind {
		name: "TSI",
		input: InKind::V,
		params: ParamKind::TsiPair,
		nature: Arith,
		has_peek: true,
		cumulative_when_zero: false,
		make: |p, i| {
			let (a, b) = pair_of(p)?;
			Ok(boxed::<TSI, 0>(TSI::new(a, b, &in_v(i))?))
		},
	});
	macro_rules! unit_p {
		($name:literal, $ty:ty) => {
			MethodKind { name: $name, input: InKind::P, params: ParamKind::Unit, nature: Exact, has_peek: false, cumulative_when_zero: false, make: |_, i| Ok(boxed::<$ty, 0>(<$ty as Method>::new((), &in_p(i))?)) }
		};
	}
	v.push(unit_p!("Cross", Cross));
	v.push(unit_p!("CrossAbove", CrossAbove));
	v.push(unit_p!("CrossUnder", CrossUnder));
	macro_rules! rev {
		($name:literal, $ty:ty) => {
			MethodKind {
				name: $name,
				input: InKind::V,
				params: ParamKind::RevPair,
				nature: Exact,
				has_peek: false,
				cumulative_when_zero: false,
				make: |p, i| {
					let (a, b) = pair_of(p)?;
					Ok(boxed::<$ty, 0>(<$ty>::new(a, b, &in_v(i))?))
				},
			}
		};
	}
	v.push(rev!("ReversalSignal", ReversalSignal));
	v.push(rev!("UpperReversalSignal", UpperReversalSignal));
	v.push(rev!("LowerReversalSignal", LowerReversalSignal));
	v.push(MethodKind { name: "ADI", input: InKind::C, params: ParamKind::Len(0, 254), nature: Arith, has_peek: true, cumulative_when_zero: true, make: |p, i| Ok(boxed::<ADI, 1>(<ADI as Method>::new(len_of(p)?, &in_c(i))?)) });
	v.push(MethodKind { name: "TR", input: InKind::C, params: ParamKind::Unit, nature: Arith, has_peek: false, cumulative_when_zero: false, make: |_, i| Ok(boxed::<TR, 1>(TR::new(&in_c(i))?)) });
	v.push(MethodKind { name: "HeikinAshi", input: InKind::C, params: ParamKind::Unit, nature: Arith, has_peek: false, cumulative_when_zero: false, make: |_, i| Ok(boxed::<HeikinAshi, 1>(<HeikinAshi as Method>::new((), &in_c(i))?)) });
	v.push(MethodKind {
		name: "Renko",
		input: InKind::C,
		params: ParamKind::Renko,
		nature: Exact,
		has_peek: false,
		cumulative_when_zero: false,
		make: |p, i| match p {
			MParams::Renko(b, s) => Ok(boxed::<Renko, 1>(<Renko as Method>::new((*b as ValueType, SOURCES[*s as usize % 8]), &in_c(i))?)),
			_ => Err(bad()),
		},
	});
	v.push(MethodKind {
		name: "CollapseTimeframe",
		input: InKind::C,
		params: ParamKind::Collapse,
		nature: Exact,
		has_peek: false,
		cumulative_when_zero: false,
		make: |p, i| match p {
			MParams::Collapse(n) => Ok(boxed::<CollapseTimeframe<Candle>, 0>(<CollapseTimeframe<Candle> as Method>::new(*n, &in_c(i))?)),
			_ => Err(bad()),
		},
	});
	// the 15 kinds of the MA constructor
	macro_rules! ma_kind {
		($name:literal, $var:ident, $min:expr, $max:expr, $nat:expr) => {
			MethodKind {
				name: $name,
				input: InKind::V,
				params: ParamKind::Len($min, $max),
				nature: $nat,
				has_peek: false,
				cumulative_when_zero: false,
				make: |p, i| Ok(boxed::<MAInstance, 0>(MA::$var(len_of(p)?).init(in_v(i))?)),
			}
		};
	}
	v.extend([
		ma_kind!("MA::SMA", SMA, 1, 254, Arith),
		ma_kind!("MA::WMA", WMA, 1, 254, Arith),
		ma_kind!("MA::HMA", HMA, 2, 254, Arith),
		ma_kind!("MA::RMA", RMA, 1, 254, Arith),
		ma_kind!("MA::EMA", EMA, 1, 254, Arith),
		ma_kind!("MA::DMA", DMA, 1, 254, Arith),
		ma_kind!("MA::DEMA", DEMA, 1, 254, Arith),
		ma_kind!("MA::TMA", TMA, 1, 254, Arith),
		ma_kind!("MA::TEMA", TEMA, 1, 254, Arith),
		ma_kind!("MA::WSMA", WSMA, 1, 127, Arith),
		ma_kind!("MA::SMM", SMM, 1, 254, Exact),
		ma_kind!("MA::SWMA", SWMA, 1, 254, Arith),
		ma_kind!("MA::TRIMA", TRIMA, 1, 254, Arith),
		ma_kind!("MA::LinReg", LinReg, 2, 254, Arith),
		ma_kind!("MA::Vidya", Vidya, 1, 254, Arith),
	]);
	v
}

pub fn kind(name: &str) -> Option<MethodKind> {
	kinds().into_iter().find(|k| k.name == name)
}

#[allow(dead_code)]
fn _assert_bounds<T: DeserializeOwned>() {}
