#![no_main]
use libfuzzer_sys::fuzz_target;

fuzz_target!(|data: &[u8]| {
	yverif::fuzz_entry::fuzz_one("indicator_program", data);
});
