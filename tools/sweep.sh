#!/bin/bash
# tools/sweep.sh <tier> <seed> [<seed> ...]   — silence sweep: every check, every given VERIF_SEED, on the current /repo tree.
# Prints one line per (check, seed) that does not exit 0; "SWEEP CLEAN" when all were silent.
tier="$1"; shift
bad=0
for s in "$@"; do
  for i in $(seq -w 1 20); do
    id="C$i"
    out=$(cd /verif && VERIF_SEED=$s ./check "$id" "$tier" 2>&1); rc=$?
    if [ $rc -ne 0 ] || echo "$out" | grep -q "^VIOLATION"; then
      bad=1; echo "!! $id seed=$s rc=$rc"; echo "$out" | grep -A1 "^VIOLATION" | cut -c1-300 | head -6
    fi
  done
done
[ $bad -eq 0 ] && echo "SWEEP CLEAN ($tier; seeds $*)"
exit $bad
