#!/bin/bash
# tools/try_seed.sh <patch.diff> <tier> <Cxx> [<Cyy> ...]
# Applies a seeded change to /repo, runs the given checks, prints which of them raise a VIOLATION,
# and restores /repo. Never commits anything in /repo.
set -u
patch="$1"; tier="$2"; shift 2
cd /repo || exit 2
if [ -n "$(git status --porcelain --untracked-files=no)" ]; then echo "/repo is not clean" >&2; exit 2; fi
if ! git apply --check "$patch" 2>/dev/null; then echo "patch does not apply: $patch" >&2; exit 2; fi
git apply "$patch"
caught=""
for id in "$@"; do
  out=$(cd /verif && ./check "$id" "$tier" 2>&1); rc=$?
  v=$(echo "$out" | grep -c "^VIOLATION")
  echo "== $id rc=$rc violations=$v"
  echo "$out" | grep -A1 "^VIOLATION" | grep "check=" | head -3 | cut -c1-260
  if [ $rc -eq 1 ]; then caught="$caught $id"; fi
  if [ $rc -ge 2 ]; then echo "$out" | tail -5; fi
done
git -C /repo checkout -- .
# rebuild the harness against the restored tree (otherwise target/release/yverif stays linked against the seeded code)
( cd /verif/harness && cargo build --release --offline >/dev/null 2>&1 )
# the evidence files now describe runs against the seeded tree: restore the committed ones
git -C /verif checkout -- evidence 2>/dev/null
echo "CAUGHT BY:${caught:- none}"
