#!/usr/bin/env python3
"""Generates /verif/MANIFEST.json from the table below (kept in one place so that it stays valid)."""
import json, sys

CHECKS = {
 "C01": dict(
   technique="model-based stateful PBT + exhaustive enumeration (capacity x phase x observer x iterator split) against a VecDeque model",
   text="Exhaustive enumeration of every capacity 0..=254, every ring phase, every constructor/start index and every observer incl. every iterator split and every positional/consuming Iterator adaptor (nth, skip, take, step_by up to usize::MAX, fold, find, position, ...) after each split (thorough; quick: stratified capacities), plus proptest op-sequence histories on u32 and Box<u32> elements. Complete for the default PeriodType because Window behaviour depends only on (capacity, index).",
   note="Trusted: the VecDeque model, serde_json; labels stand for all values (parametricity). Wide PeriodType builds are covered by C20.",
   ref="DESIGN.md §5 C01"),
 "C16": dict(
   technique="exhaustive enumeration with validity-predicate oracles (all actions, pairs, triples, i8, all 2^32 f32; boundary-focused f64)",
   text="All 513 actions, all 263 169 pairs, all 513^3 triples and all i8 are enumerated in both tiers; the thorough tier converts every one of the 2^32 f32 bit patterns (quick: every 61st magnitude plus +-64 patterns around each rounding boundary), f64 on +-4 ulp neighbourhoods of every k/255 and (k+0.5)/255 plus seeded random patterns. Complete for the finite parts of the quantifier.",
   note="Oracle: signed-strength lattice model and float validity predicates (total, sign, monotone, nearest step, saturation). Known finding: Eq/Ord disagree on {Buy(0), Sell(0)} (listed in known_findings.txt).",
   ref="DESIGN.md §5 C16"),
 "C04": dict(
   technique="PBT + bounded-exhaustive small-scope enumeration against from-scratch selection oracles (exact ==)",
   text="Every stream of length <= 7 (thorough 9) over {-0.0,+0.0,-2,1} for n=1..4 exhaustively, plus proptest tie-forcing alphabet streams and segment-built streams for every length 1..=254; max/min/delta/newest-arg-extremum age/median and SMM::get_window compared exactly with the from-scratch value on the padded history at every step.",
   note="Trusted: naive reference in refm::sel; inputs finite. Exact comparison with == (only the sign of zero is tolerated).",
   ref="DESIGN.md §5 C04"),
 "C02": dict(
   technique="PBT differential against independent from-scratch formula evaluation with a stated rounding allowance",
   text="19 finite-window methods, every length class 1..=254, segment-built streams (plateaus, spikes, scale jumps, sign flips, zero runs) incl. warm-up and an independent prehistory value; two-sided comparison with the naive formula on the padded history inside K*eps*(n+t)*M_t*g.",
   note="Trusted: refm::win naive formulas (f64), allowance constant K=256 (DESIGN 4.2); ill-conditioned quotients exempt and counted. Streams <= 2048 steps; longer histories are C07's.",
   ref="DESIGN.md §5 C02, §4.2"),
 "C03": dict(
   technique="PBT differential against independently re-implemented recurrences with carried rounding allowance",
   text="EMA/DMA/TMA/DEMA/TEMA/RMA/WSMA/TSI/Vidya/TR/HeikinAshi/Integral(0)/ADI(0) against their documented recurrences at every step of generated streams, all lengths 1..=254 and PeriodType::MAX where the constructor accepts it, (short,long) grid for TSI, plateau-after-movement regimes counted.",
   note="Trusted: reference recurrences in props/c03.rs; K=256. Vidya/TSI steps with an ill-conditioned ratio are checked by a hull predicate only (counted).",
   ref="DESIGN.md §5 C03"),
 "C14": dict(
   technique="PBT + bounded-exhaustive enumeration against definitional predicates (exact)",
   text="Crossing detectors on generated pairs of streams with touches, zero runs, sign alternation, +-1 ulp differences and both constructors, decided on the computed difference; reversal detectors exhaustively for all (left,right) in 1..=4^2 over all short ternary streams, by proptest for random (left,right) up to the limit with plateaus/equal peaks, and on streams of 3000 (thorough 70000) steps, far beyond PeriodType::MAX.",
   note="Trusted: the newest-wins arg-extremum reference (prehistory = first input). Exact comparison of Actions.",
   ref="DESIGN.md §5 C14"),
 "C15": dict(
   technique="metamorphic PBT (affine, hull, superposition, constant) + exhaustive impulse responses for every length against closed-form weight profiles",
   text="For all 15 MA kinds plus Conv and VWMA: generated streams with generated a (both signs) and b for affine equivariance, hull containment without conditioning exemption for non-negative-weight kinds, superposition for linear kinds, constant reproduction; the impulse response of every kind at EVERY length 1..=254 is enumerated and compared with the documented weight profile (a linear shift-invariant filter is determined by it).",
   note="Trusted: closed-form profiles in props/c15.rs; allowance of DESIGN 4.2. Non-linear kinds (SMM, Vidya) are compared only under float-exact transformations.",
   ref="DESIGN.md §5 C15"),
 "C18": dict(
   technique="exhaustive special-value grid + PBT with formula, three-valued validate and grammar oracles",
   text="All 11^5 candles over a special-value set (NaN, infinities, signed zeros, subnormal, huge) x 11 previous closes for tp/hl2/ohlc4/volumed price/source/clv/tr_close/validate on Candle, tuple and array; random valid and invalid candles for associativity of + and Sequence::validate; text forms of all 8 sources and all 15 MA names at every length 0..=255 round-trip, and 80k (thorough 800k) canonical/near-miss/arbitrary strings are decided by grammar oracles for Source and MA parsing.",
   note="Trusted: textbook formulas and the two grammar oracles in props/c18.rs. validate() is not asserted where only `open` lies outside [low, high] (doc/predicate disagreement).",
   ref="DESIGN.md §5 C18"),
 "C17": dict(
   technique="PBT with boundary-aware stateful op sequences (Renko) and fold/validity oracles",
   text="CollapseTimeframe against a bit-exact block fold for streaming, batch and continuous batch collapse (periods 1..10^4, usize::MAX); HeikinAshi outputs validate for valid inputs; Renko driven by generated move sequences placed exactly on, +-1..3 ulps around and far beyond its own thresholds (multi-brick jumps, reversals, zero/huge volumes, brick sizes from EPSILON to just below 1, seven sources) and judged by a brick-chain validity predicate.",
   note="Trusted: fold model, chain predicate with a 16-eps indifference band around thresholds; thresholds read from the serialized instance only to place inputs.",
   ref="DESIGN.md §5 C17"),
 "C10": dict(
   technique="exhaustive parameter enumeration + PBT/string fuzzing under catch_unwind with a totality oracle (debug-assertions and overflow-checks on)",
   text="All 256 PeriodType values for every single-length constructor and MA kind, all 65 536 pairs for the two-parameter methods (thorough), boundary sets for weights/brick sizes/periods/initial values, every configuration field of every indicator through all 256 periods / float boundary set / MA kinds x boundary lengths (other fields default and generated), generated valid configurations on generated streams, and strings for Source/MA/set(): never a panic, !validate => Err, documented-too-small => Err, accepted instances survive valid streams with flat, high==low and zero-volume stretches.",
   note="Panics are observed with debug-assertions and overflow-checks ON (as the repository's tests run). One known finding (CoppockCurve + SMM + zero-volume source) is listed in known_findings.txt; 8 fix: commits removed the others.",
   ref="DESIGN.md §5 C10"),
 "C11": dict(
   technique="PBT with a serde-diff frame-condition oracle for set(), static-vs-dyn differential, result-shape invariant on every step",
   text="For all 37 indicators: generated configurations, sequences of set(name, text) with own/foreign/near-miss/random names and typed/boundary/garbage texts judged by 'exactly the named key changes to the independently parsed value, else Err and unchanged' on the serialized configuration, with the Box<dyn IndicatorConfigDyn> twin in lock-step; result shape = size() at every step of generated streams; name() = NAME = frozen table for config/instance/dyn; dyn init/next/over bit-identical to static; defaults validate, initialise and accept their own values; IndicatorResult::new truncation model.",
   note="Trusted: serde_json view of the configuration (all fields pub), std parsers and the C18 grammar oracles as the independent parse.",
   ref="DESIGN.md §5 C11"),
 "C13": dict(
   technique="PBT round-trip differential (original vs restored on a continuation, bit-exact) + generated adversarial serialized forms for Window/SMM",
   text="Every serializable method (44 kinds + 15 MA kinds), 36 indicator instances and all 37 configurations: snapshot at generated points (every ring phase of short windows, window-less variants), JSON text, restore, identical re-serialization, bit-identical outputs/peeks on the continuation, equal final state. Adversarial Window<u32> and SMM JSON: Err, or Ok equal to the model rotation of the buffer; valid data must be accepted; no panic.",
   note="Format: serde_json with float_roundtrip (bit-exact finite floats). Snapshots containing a non-finite float are skipped and counted. Example's instance type has no serde impl.",
   ref="DESIGN.md §5 C13"),
 "C09": dict(
   technique="PBT differential between API paths (element-wise next as reference) + Vec/inner-instance models for the wrappers + replay twin for clones",
   text="All 44 method types (statically instantiated) and all 37 indicators: over/call/apply in generated chunkings incl. empty chunks, new_over/new_apply (empty => Ok(empty)), into_fn/new_fn, IndicatorConfig::over/init_fn, IndicatorInstance::over/into_fn bit-identical to element-wise next with exactly one output per input; WithHistory vs a Vec model, WithLastValue vs an inner instance fed the initial value once; clones fed a different continuation than the original, both equal to replayed twins; peek() = value just produced for all 30 Peekable impls.",
   note="Known finding: Past::peek returns the newest input (known_findings.txt). Methods with dyn OHLCV or pair input have no Sequence-based batch API.",
   ref="DESIGN.md §5 C09"),
 "C08": dict(
   technique="metamorphic PBT: constancy under repeated first input and prefix invariance under k leading copies",
   text="Every method kind (44 + 15 MA kinds) and every indicator with generated valid parameters, first value/candle of any sign, zero, magnitude and shape (generic, flat, zero-volume), k in 1..3n+10 leading copies: outputs of the copies are constant (bit-equal for exact kinds and signals, within the allowance for arithmetic kinds) and the continuation agrees with the run without the copies.",
   note="Exemptions are the ones the property states. Three known findings (signals of average-comparing indicators on rounding noise; Vidya smoothing a computed series; TrendStrengthIndex 0/0) are classified by construction and listed in known_findings.txt; the checks continue behind them.",
   ref="DESIGN.md §5 C08, Appendix A"),
 "C12": dict(
   technique="PBT invariant checking with regime-biased generators (volatile -> exactly flat -> volatile, zero volume, high == low)",
   text="All 37 indicators on regime streams sized to the configuration's longest window, every step: documented intervals (incl. TrendStrengthIndex in [-1,1] with a conditioning-aware allowance and a generator of exactly linear stretches; ADX/+DI/-DI in [0,1] where that follows from the formula), band orderings, channel containment, SAR side (exact), non-negative dispersion, clv range and finiteness of every value wherever the formula is defined; no conditioning exemption for the flat regimes.",
   note="Pure predicates on outputs, no reference model. Six fix: commits (RSI, MFI, CMO, TrendStrengthIndex, Vidya, ADX directional averages) removed the violations found.",
   ref="DESIGN.md §5 C12, Appendix A"),
 "C07": dict(
   technique="long procedural streams with late checkpoints: definitional comparison on a ring of recent inputs + metamorphic fresh-instance-primed-with-last-window relation",
   text="3*10^5 (thorough 10^7) step streams with regime changes (volatile, exactly flat, 10^+-k scale jumps, drifts, lattices, sign flips) and plain random walks for all 22 finite-window/selection methods at lengths {1,2,3,5,14,100,254}, the reversal detectors (every step, exact) and 13 finite-memory indicators: selections/positions/signals exact on dense late bands (around multiples of 2^8 and 2^16, every 997th step, last 1000), arithmetic outputs against the from-scratch formula at geometric checkpoints inside K*eps*(n+t)*M_t*g, and agreement of the veteran with a fresh instance primed with the last window.",
   note="Known findings (listed): t^1.5 drift of the double-accumulator averages (WMA, LinReg, SWMA, HMA) beyond any linear allowance; RSI/CCI residue ratio on an exactly flat window. Streams are a pure function of a small parameter record (the replay file).",
   ref="DESIGN.md §5 C07, Appendix A"),
 "C19": dict(
   technique="differential testing of generated API programs between two builds (bit-exact transcripts) + libFuzzer/ASan targets with in-target semantic oracles",
   text="The harness is built twice from the current tree (default / unsafe_performance); 6 400 (thorough 64 000) generated programs over every method kind, Window op sequences and every indicator (constructor, next, peek, serde snapshot/restore, clone, iterators) must yield identical 128-bit transcripts wherever the default build does not panic; a crash of the unsafe build is a violation. Quick tier replays the committed fuzz corpus through the oracles; thorough tier runs libFuzzer+AddressSanitizer campaigns (window_ops, smm_stream, method_program, window_json) on the unsafe_performance build.",
   note="ASan silence is evidence for the explored inputs only. Calls on which the default build panics are outside the claim and are not issued against the unsafe build.",
   ref="DESIGN.md §5 C19, §7"),
 "C20": dict(
   technique="differential transcripts across feature builds + re-running the definitional PBT checks (C02/C03/C04/C14) inside each feature build",
   text="O1: the C19 program transcripts of the period_type_u16/u32/u64 builds (and u16+unsafe) must equal the default build's for all programs (parameters <= 254) the default build accepts. O2: the from-scratch/recurrence/exact-selection/crossing checks are executed inside the u16/u32/u64 builds with window lengths 255..65534 added, and inside value_type_f32 (single-precision epsilon, reference in f64 on f32-rounded inputs) and its unsafe combination.",
   note="Quick tier uses four feature builds (u16, u64, f32, u16+unsafe), thorough all seven. All builds are produced by ./check from the current /repo tree.",
   ref="DESIGN.md §5 C20"),
 "C06": dict(
   technique="PBT with definitional re-computation of every signal from the indicator's own returned values (exact), deviation models for doc/code rule conflicts",
   text="36 indicators with signals, generated configurations (all MA kinds) and candle streams: at every step each signal slot is recomputed from the returned values, the candle and the configuration with independent crossing/reversal/latch/counter detectors and an independent float->strength conversion, and must equal the returned Action. Evidence lists per slot whether Buy and Sell fired (all slots fire in both directions in 16-97% of cases).",
   note="Rules are the ones frozen in DESIGN §6. Known findings (listed): PivotReversalStrategy and TrendStrengthIndex #2 implement another rule than documented (deviation models keep other regressions visible).",
   ref="DESIGN.md §5 C05/C06, §6"),
 "C05": dict(
   technique="PBT differential against 37 independent reference indicators composed from naive reference methods in value+-allowance arithmetic",
   text="Every indicator with generated valid configurations (every MA kind, boundary periods) on generated valid candle streams (flat stretches, gaps, zero volume, regime streams): every raw value at every step must lie in the interval of the reference formula of DESIGN §6, whose error is propagated through sums, products and quotients from the per-method allowance K*eps*(n+t)*M*g.",
   note="Trusted: refi.rs / props/c05.rs references (no call into yata::methods or yata::indicators), K=256. Ill-conditioned quotients are exempt and undecidable state-changing branches cut the case (both counted in evidence: about 3% of value comparisons exempt, ADX and SAR cases cut at an ambiguous test).",
   ref="DESIGN.md §5 C05/C06, §6, §4.3"),
}

PENDING = {
}

# additions of the later build phase, appended to the level text of the checks they concern
TREND = " Also long one-sided trend streams with a zig-zag (up to 3 000 bars quick / 30 000 thorough) that drive run, peak and bars-since counters far from their initial values."
FUZZ = " Thorough tier adds a libFuzzer + AddressSanitizer campaign (40 000 executions of up to 2 000 candles each) of the indicator_program target (any indicator, configuration valid by construction, lattice candle stream of up to 2 000 bars) with this property's oracle inside the target; its committed corpus is replayed in both tiers."
CHECKS["C02"]["text"] += " Also bounded-exhaustive: every stream of length <= 7 (thorough 9) over a four-letter alphabet with ties, zero and both signs, windows 1..=4, two construction values, for each value-input method; candle-input methods (windowed ADI) with an independent construction candle in half of the cases."
CHECKS["C03"]["text"] += " Also bounded-exhaustive: every stream of length <= 6 (thorough 8) over {0,1,2,4} for n in {1,2,3,4,7} with every letter as construction value (dyadic data on dyadic smoothing constants: exact ties), for each recurrence of the EMA family; TR and HeikinAshi with an independent construction candle in half of the cases."
CHECKS["C07"]["text"] += " Also: 4*10^6 (thorough 3*10^7) steps for the fourteen O(1) single-accumulator and selection methods (very_long_*), and every one of the 37 indicators on 3*10^4 (4*10^5) candles of regime streams, persistent trends with a zig-zag and strictly monotone 70 000-bar rises/falls with the documented ranges and every signal checked at every step (long_any_*)."
CHECKS["C09"]["text"] += " Also the same laws on streams of up to 700 (thorough 2000) elements (histories, chunk and clone points beyond PeriodType::MAX) and the documented accessor functions (get_last_value, get_value, b(), tan(), get_divider, get_window, get_sma, get_smm) against the main path."
CHECKS["C14"]["text"] += " With new(first pair) the construction pair is 'the previous step' only (not fed again) in half of the cases."
CHECKS["C17"]["text"] += " RenkoOutput's iterator observers (len, size_hint, count, last, nth, step_by) are checked after every split into a consumed and an unconsumed part, its OHLCV view exactly; the batch collapse also on sequences shorter than one period and on the empty sequence."
for k in ("C05", "C06", "C10", "C12", "C13"):
    CHECKS[k]["text"] += TREND
for k in ("C05", "C06"):
    CHECKS[k]["text"] += " Also candle streams on an exactly representable lattice (ticks of 1/4: exact ties between prices, averages and thresholds) and one stream in seven at a tiny price scale (1e-12..1e-6)."
for k in ("C05", "C06", "C09", "C10", "C11", "C12", "C13"):
    CHECKS[k]["text"] += FUZZ
    if "libFuzzer" not in CHECKS[k]["technique"]:
        CHECKS[k]["technique"] += "; coverage-guided fuzzing (libFuzzer/ASan) with the same oracle in the thorough tier"

def main():
    props = [json.loads(l)["id"] for l in open("/verif/properties.jsonl")]
    checks = []
    for pid in props:
        if pid in CHECKS:
            c = CHECKS[pid]
            checks.append({
                "property_id": pid,
                "quick_cmd": f"./check {pid} quick",
                "thorough_cmd": f"./check {pid} thorough",
                "evidence_file": f"/verif/evidence/{pid}.json",
                "replay_cmd_template": f"./check {pid} --replay {{path}}",
                "engine": "yverif",
                "level_claimed": {"category": "exploration", "text": c["text"], "design_ref": c["ref"]},
                "level_note": c["note"],
                "technique": c["technique"],
            })
    na = [{"property_id": p, "reason": PENDING.get(p, "check not built yet in this revision (work in progress; the technique applies, see DESIGN.md)")}
          for p in props if p not in CHECKS]
    m = {
        "version": 1,
        "setup_cmd": "cd /verif && ./check --build-all",
        "hooks": {
            "guard": "yata_verif",
            "enable": "no hooks are needed: every observation goes through the public API; checks build /repo as a path dependency of /verif/harness",
            "baseline_off_cmd": "cd /repo && cargo test --workspace --no-fail-fast --offline",
            "source_commits": [],
            "add_only": True,
        },
        "engines": [
            {"name": "yverif", "path": "/verif/harness", "serves_properties": sorted(CHECKS),
             "kind_free_text": "Rust harness: proptest strategies + exhaustive enumerators + reference models, one sub-command per property; ./check drives it"},
        ],
        "checks": checks,
        "not_applicable": na,
        "notes": "Every check rebuilds the harness (path dependency on /repo) before running. Exit 2 = infrastructure failure, never a violation. Known findings: /verif/known_findings.txt.",
    }
    json.dump(m, open("/verif/MANIFEST.json", "w"), indent=1)
    print("checks:", len(checks), "not_applicable:", len(na))

main()
