#!/bin/bash
# tools/verify_seed.sh <seed-dir> [features-for-the-demo]   (seed-dir contains patch.diff and demo.rs)
# Confirms in a scratch worktree (outside /repo and /verif): the patch applies and compiles, the existing
# suite passes with it, the demo fails with it and passes without it.
set -u
d="$1"; feat="${2:-}"; wt=/tmp/vs_seed
if [ ! -d "$wt" ]; then git -C /repo worktree add -q --detach "$wt" HEAD || exit 2; fi
cd "$wt" || exit 2
git checkout -q --detach "$(git -C /repo rev-parse HEAD)" 2>/dev/null; git checkout -q -- . ; rm -f tests/seed_demo.rs
mkdir -p tests && cp "$d/demo.rs" tests/seed_demo.rs
base=$(cargo test --offline ${feat:+--features "$feat"} --test seed_demo 2>&1 | grep -E "^test result:" | head -1)
echo "demo WITHOUT change: $base"
if ! git apply --check "$d/patch.diff" 2>/dev/null; then echo "PATCH DOES NOT APPLY"; exit 1; fi
git apply "$d/patch.diff"
suite=$( (cargo test --offline --lib 2>&1; cargo test --offline --doc 2>&1) | grep -E "^test result:" | tr '\n' ' ')
echo "existing suite WITH change: $suite"
withall=$(cargo test --offline ${feat:+--features "$feat"} --test seed_demo 2>&1); withrc=$?
with=$(echo "$withall" | grep -E "^test result:" | head -1)
# a demo that aborts the process (e.g. an unsafe precondition check) prints no result line: that is a failure too
if [ -z "$with" ] && [ $withrc -ne 0 ] && echo "$withall" | grep -q "signal: 6\|SIGABRT\|process didn't exit successfully"; then with="0 passed; 1 failed (process aborted)"; fi
echo "demo WITH change: $with"
git checkout -q -- . ; rm -f tests/seed_demo.rs
case "$base" in *"1 passed"*"0 failed"*) ;; *) echo "VERDICT: demo does not pass on the unchanged code"; exit 1;; esac
case "$suite" in *"failed; 0"*|*" 0 passed"*) ;; esac
if echo "$suite" | grep -qE "[1-9][0-9]* failed"; then echo "VERDICT: existing suite fails with the change"; exit 1; fi
case "$with" in *"0 passed; 1 failed"*) echo "VERDICT: OK";; *) echo "VERDICT: demo does not fail with the change"; exit 1;; esac
