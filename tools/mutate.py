#!/usr/bin/env python3
"""Mutation campaign: how sensitive are the registered quick checks to small source changes?

  tools/mutate.py plan  <n> <seed> <out.jsonl> [dirs]  sample n mutation sites from /repo/src (non-test code; dirs e.g. methods,core)
  tools/mutate.py lanes <k>                           create k scratch lanes under /tmp/mt (yata worktree + harness copy)
  tools/mutate.py run   <plan.jsonl> <k> <results.jsonl>   run the plan on k lanes in parallel
  tools/mutate.py clean                               remove the lanes (worktrees and build output)

For every mutant: (1) apply it to the lane's scratch copy of the crate (never to /repo), (2) the crate's own
`cargo test --lib` must still compile and pass - otherwise the mutant is 'killed by the baseline suite' and of no
interest, (3) the lane's copy of the harness is rebuilt against the mutated crate and the quick tiers of C01..C18
run in a fixed order until one reports a VIOLATION. Survivors (baseline passes, no check fires) are either
equivalent mutants or gaps of the checks; they are triaged by hand (seeded/mutation_campaign.md).
Everything lives under /tmp/mt and is removed by `clean`.
"""
import json, os, random, re, subprocess, sys, threading, time, shutil, glob

ROOT = "/tmp/mt"
ORDER = ["C02", "C03", "C04", "C14", "C05", "C06", "C15", "C08", "C12", "C10", "C11", "C09", "C13", "C17", "C18", "C16", "C01", "C07"]

# (regex, replacement, label); applied to one occurrence on one code line
OPS = [
    (r"(?<![<>=!\-])<=(?!=)", "<", "<= to <"),
    (r"(?<![<>=!\-])>=(?!=)", ">", ">= to >"),
    (r"(?<![<>=!\-:])<(?![<=:])(?=\s)", "<=", "< to <="),
    (r"(?<![<>=!\-:])>(?![>=:])(?=\s)", ">=", "> to >="),
    (r"==", "!=", "== to !="),
    (r"!=", "==", "!= to =="),
    (r"(?<=\s)\+(?=\s)", "-", "+ to -"),
    (r"(?<=\s)-(?=\s)", "+", "- to +"),
    (r"(?<=\s)\*(?=\s)", "/", "* to /"),
    (r"(?<=\s)/(?=\s)", "*", "/ to *"),
    (r"\+= ", "-= ", "+= to -="),
    (r"-= ", "+= ", "-= to +="),
    (r"\.min\(", ".max(", "min to max"),
    (r"\.max\(", ".min(", "max to min"),
    (r"&&", "||", "&& to ||"),
    (r"\|\|", "&&", "|| to &&"),
    (r"(?<![\w.])0\.0?(?![\w.])", "1.", "0. to 1."),
    (r"(?<![\w.])1\.0?(?![\w.])", "2.", "1. to 2."),
    (r"(?<![\w.])2\.0?(?![\w.])", "3.", "2. to 3."),
    (r"(?<=[\s(])1(?=[\s);,])", "2", "1 to 2"),
    (r"(?<=[\s(])0(?=[\s);,])", "1", "0 to 1"),
    (r"saturating_sub", "saturating_add", "saturating_sub to saturating_add"),
    (r"saturating_add", "saturating_sub", "saturating_add to saturating_sub"),
    (r"\.abs\(\)", "", "drop abs()"),
    (r"(?<=[\s(])!(?=[\w(])", "", "drop !"),
    (r"\bhigh\(\)", "low()", "high() to low()"),
    (r"\blow\(\)", "high()", "low() to high()"),
    (r"\bclose\(\)", "open()", "close() to open()"),
    (r"\bleft\b", "right", "left to right"),
    (r"\boldest\(\)", "newest()", "oldest() to newest()"),
]

SKIP_LINE = re.compile(r"^\s*(//|#\[|#!\[|use |pub use |mod |pub mod |debug_assert|assert|\*|///|//!|extern |type |pub type |const fn |fn |pub fn |pub const fn |impl|pub struct|struct|pub enum|enum|pub trait|trait|\}|\{|where|\)|$)")


def code_lines(path):
    src = open(path).read().split("\n")
    out = []
    for i, l in enumerate(src):
        if "#[cfg(test)]" in l:
            break
        if SKIP_LINE.match(l):
            continue
        code = l.split("//")[0]
        if '"' in code:  # leave string literals alone (error texts, names)
            continue
        if "PhantomData" in code or "derive" in code:
            continue
        out.append((i, code))
    return out


def plan(n, seed, out, only=None):
    rnd = random.Random(seed)
    files = sorted(glob.glob("/repo/src/methods/*.rs") + glob.glob("/repo/src/indicators/*.rs") + glob.glob("/repo/src/core/*.rs") + glob.glob("/repo/src/core/indicator/*.rs") + glob.glob("/repo/src/helpers/*.rs"))
    # helpers/mod.rs holds the test helpers (assert_eq_float, RandomCandles): not product code
    files = [f for f in files if not f.endswith("/mod.rs")]
    if only:
        files = [f for f in files if any(("/src/" + o + "/") in f for o in only.split(","))]
    sites = []
    for f in files:
        for (i, code) in code_lines(f):
            for (rx, rep, label) in OPS:
                for m in re.finditer(rx, code):
                    sites.append({"file": f[len("/repo/"):], "line": i, "start": m.start(), "end": m.end(), "rep": rep, "op": label, "before": code.strip()})
    # stratify: at most a few per (file, op), shuffled
    rnd.shuffle(sites)
    seen = {}
    picked = []
    for s in sites:
        k = (s["file"], s["op"])
        if seen.get(k, 0) >= (3 if only else 2):
            continue
        seen[k] = seen.get(k, 0) + 1
        picked.append(s)
        if len(picked) >= n:
            break
    with open(out, "w") as fh:
        for j, s in enumerate(picked):
            s["id"] = j
            fh.write(json.dumps(s) + "\n")
    print(f"{len(sites)} candidate sites in {len(files)} files; planned {len(picked)}")


def sh(cmd, cwd=None, timeout=None, env=None):
    try:
        p = subprocess.run(cmd, shell=True, cwd=cwd, timeout=timeout, capture_output=True, text=True, env=env)
        return p.returncode, p.stdout + p.stderr
    except subprocess.TimeoutExpired as e:
        return 124, (e.stdout or b"").decode("utf8", "replace") if isinstance(e.stdout, bytes) else (e.stdout or "")


def lanes(k):
    os.makedirs(ROOT, exist_ok=True)
    for i in range(k):
        d = f"{ROOT}/lane{i}"
        if os.path.isdir(d):
            continue
        os.makedirs(d)
        rc, out = sh(f"git -C /repo worktree add -q --detach {d}/yata HEAD")
        assert rc == 0, out
        sh(f"rsync -a --exclude 'target*' --exclude '.run' --exclude '.build.*' --exclude 'fuzz' /verif/harness/ {d}/harness/")
        t = open(f"{d}/harness/Cargo.toml").read().replace('path = "/repo"', f'path = "{d}/yata"')
        open(f"{d}/harness/Cargo.toml", "w").write(t)
        print("lane", i, "created")
    # cold builds in parallel
    ths = []
    for i in range(k):
        d = f"{ROOT}/lane{i}"
        th = threading.Thread(target=lambda d=d: print(d, sh("cargo build --release --offline 2>&1 | tail -1", cwd=f"{d}/harness")[1].strip(), sh("cargo test --offline --lib --no-run 2>&1 | tail -1", cwd=f"{d}/yata")[1].strip()))
        th.start()
        ths.append(th)
    for th in ths:
        th.join()


def run_one(lane, m):
    d = f"{ROOT}/lane{lane}"
    path = f"{d}/yata/{m['file']}"
    sh("git checkout -q -- .", cwd=f"{d}/yata")
    src = open(path).read().split("\n")
    line = src[m["line"]]
    code = line.split("//")[0]
    if code[m["start"]:m["end"]] == "" or code.strip() != m["before"]:
        return {**m, "status": "stale-site"}
    src[m["line"]] = line[: m["start"]] + m["rep"] + line[m["end"]:]
    open(path, "w").write("\n".join(src))
    m = {**m, "after": src[m["line"]].split("//")[0].strip()}
    t0 = time.time()
    rc, out = sh("timeout 300 cargo test --offline --lib 2>&1 | tail -40", cwd=f"{d}/yata", timeout=400)
    if "error" in out and "could not compile" in out:
        return {**m, "status": "does-not-compile"}
    if "test result: ok" not in out:
        return {**m, "status": "killed-by-baseline"}
    rc, out = sh("cargo build --release --offline 2>&1 | tail -3", cwd=f"{d}/harness", timeout=900)
    if "Finished" not in out:
        return {**m, "status": "harness-build-failed", "detail": out[-300:]}
    caught = None
    detail = ""
    ran = []
    for c in ORDER:
        rc, out = sh(f"timeout 600 ./target/release/yverif run {c} quick --no-evidence 2>&1 | tail -6", cwd=f"{d}/harness", timeout=700)
        ran.append(c)
        if "VIOLATION" in out or "violations=0" not in out:
            caught = c
            for l in out.split("\n"):
                if "check=" in l:
                    detail = l.strip()[:300]
                    break
            if not detail:
                detail = out.strip()[-300:]
            break
    return {**m, "status": "caught" if caught else "SURVIVED", "caught_by": caught, "detail": detail, "checks_run": len(ran), "secs": round(time.time() - t0)}


def run(planf, k, outf):
    todo = [json.loads(l) for l in open(planf)]
    done = set()
    if os.path.exists(outf):
        done = {json.loads(l)["id"] for l in open(outf)}
    todo = [m for m in todo if m["id"] not in done]
    lock = threading.Lock()
    it = iter(todo)

    def worker(lane):
        while True:
            with lock:
                m = next(it, None)
            if m is None:
                return
            r = run_one(lane, m)
            with lock:
                with open(outf, "a") as fh:
                    fh.write(json.dumps(r) + "\n")
                print(f"[lane{lane}] #{r['id']} {r['file']}:{r['line']+1} {r['op']}: {r['status']} {r.get('caught_by') or ''}", flush=True)

    ths = [threading.Thread(target=worker, args=(i,)) for i in range(k)]
    for t in ths:
        t.start()
    for t in ths:
        t.join()
    for i in range(k):
        sh("git checkout -q -- .", cwd=f"{ROOT}/lane{i}/yata")


def clean():
    for d in glob.glob(f"{ROOT}/lane*"):
        sh(f"git -C /repo worktree remove --force {d}/yata")
    shutil.rmtree(ROOT, ignore_errors=True)
    sh("git -C /repo worktree prune")


if __name__ == "__main__":
    a = sys.argv[1:]
    if a[0] == "plan":
        plan(int(a[1]), int(a[2]), a[3], a[4] if len(a) > 4 else None)
    elif a[0] == "lanes":
        lanes(int(a[1]))
    elif a[0] == "run":
        run(a[1], int(a[2]), a[3])
    elif a[0] == "clean":
        clean()
